(* PinSpec.v — ISO 9564-1 PIN block formats 0 and 4, the Visa PVV decimalisation and key-component
   combination, as a nibble-level specification.  Written from the field layouts of the standard and the
   property text, independently of the code's route (hex string -> big integer -> xor -> bytes).
   Executable definitions only.  A "nibble" is a number < 16, a "digit" a number < 10; fields are lists,
   most significant nibble first. *)
From Coq Require Import List NArith Bool Arith.
From Coq Require Import Strings.Byte.
Require Import CU.model.Prim.          (* bytes, byte_of_N, N_of_byte, dch, hexval only *)
Import ListNotations.

Definition all_nib (l : list N) : Prop := Forall (fun d => (d < 16)%N) l.
Definition all_dec (l : list N) : Prop := Forall (fun d => (d < 10)%N) l.
(* a digit string as the Python str of its ASCII digits *)
Definition dstr (ds : list N) : str := map dch ds.

(* nibble-wise XOR of two fields *)
Fixpoint xor2 (l1 l2 : list N) : list N :=
  match l1, l2 with a :: r1, b :: r2 => N.lxor a b :: xor2 r1 r2 | _, _ => [] end.

(* the n rightmost digits of the PAN excluding the check digit (= the last digit):
   read from the right, drop one, keep n *)
Definition pan_field (n : nat) (pan : list N) : list N := rev (firstn n (tl (rev pan))).

(* PIN field: control nibble, PIN length, the PIN digits, fill up to 16 nibbles *)
Definition pin_field (control fill : N) (pin : list N) : list N :=
  [control; N.of_nat (length pin)] ++ pin ++ repeat fill (14 - length pin).

(* format 0:   0 L P P P P P/F .. F   XOR   0 0 0 0 C1 .. C12 *)
Definition spec0 (pin pan : list N) : list N :=
  xor2 (pin_field 0 15 pin) ([0; 0; 0; 0]%N ++ pan_field 12 pan).

(* n written as w nibbles *)
Fixpoint nibbles_of_N (w : nat) (n : N) : list N :=
  match w with O => [] | S w' => nibbles_of_N w' (n / 16) ++ [(n mod 16)%N] end.

(* format 4:   4 L P P P P P/A .. A   followed by 64 random bits *)
Definition spec4 (pin : list N) (rnd : N) : list N := pin_field 4 10 pin ++ nibbles_of_N 16 rnd.

(* two nibbles per byte *)
Fixpoint bytes_of_nibbles (l : list N) : bytes :=
  match l with a :: b :: r => byte_of_N (a * 16 + b) :: bytes_of_nibbles r | _ => [] end.
Definition nibbles_of_bytes (b : bytes) : list N :=
  flat_map (fun x => [(N_of_byte x / 16)%N; (N_of_byte x mod 16)%N]) b.

(* reading a PIN field back: L digits after the control and length nibbles *)
Definition pin_of_field (f : list N) : list N :=
  match f with _ :: l :: r => firstn (N.to_nat l) r | _ => [] end.

(* ---------- Visa PVV ---------- *)
(* transformed security parameter: 11 rightmost PAN digits excluding the check digit, key index, 4 leftmost PIN digits *)
Definition tsp_spec (pan : list N) (kidx : N) (pin : list N) : list N :=
  pan_field 11 pan ++ [kidx] ++ firstn 4 pin.

(* decimalisation of the cipher output: scan 1 keeps the decimal nibbles in order; scan 2 maps A..F to 0..5
   in order; the PVV is the first four digits of scan 1 followed by scan 2 *)
Definition visa_spec (ct : list N) : list N :=
  let scan1 := filter (fun d => (d <? 10)%N) ct in
  let scan2 := map (fun d => (d - 10)%N) (filter (fun d => (10 <=? d)%N) ct) in
  firstn 4 (scan1 ++ scan2).
(* how many digits the second scan contributes *)
Definition visa_substituted (ct : list N) : nat := 4 - length (filter (fun d => (d <? 10)%N) ct).

(* ---------- key components ---------- *)
(* a hex string (either case) as nibbles / as a number *)
Definition hexnib (c : N) : N := match hexval c with Some v => v | None => 0%N end.
Definition nibs_of_hex (s : str) : list N := map hexnib s.
Definition N_of_nibbles (l : list N) : N := fold_left (fun a d => (a * 16 + d)%N) l 0%N.
(* combination of 128-bit components: nibble-wise XOR, starting from zeros *)
Definition combine_fields (parts : list (list N)) : list N := fold_left xor2 parts (repeat 0%N 32).
(* combination of components of any size, as numbers *)
Definition combine_N (parts : list N) : N := fold_right N.lxor 0%N parts.
(* key check value: the n leading nibbles of the cipher output *)
Definition kcv_spec (ct : list N) (n : nat) : list N := firstn n ct.
