(* RegexSpec.v — declarative meaning of the regex fragment of model/Regex.v: which strings a pattern can consume.
   No priorities, no backtracking: plain "there is a way to split the subject".  Used to state that the backtracking
   matcher of the model finds a match exactly when one exists, and that what it returns is one. *)
From Coq Require Import List NArith Bool Arith.
Require Import CU.model.Prim CU.model.Types CU.model.Unicode CU.model.Regex.
Import ListNotations.

(* den r pos w rest: at position pos of the subject, r can consume exactly w when rest is what follows w *)
Fixpoint den (r : re) (pos : nat) (w rest : str) {struct r} : Prop :=
  match r with
  | RChar c mn mx _ =>
    Forall (fun ch => cmatch c ch = true) w /\ mn <= length w /\
    match mx with Some m => length w <= m | None => True end
  | RGroup _ body =>
    (fix dens (l : list re) (pos : nat) (w rest : str) {struct l} : Prop :=
       match l with
       | [] => w = []
       | x :: t => exists w1 w2, w = w1 ++ w2 /\ den x pos w1 (w2 ++ rest) /\ dens t (pos + length w1) w2 rest
       end) body pos w rest
  | REnd strict => w = [] /\ (rest = [] \/ (strict = false /\ rest = [10%N]))
  | RStart => w = [] /\ pos = 0
  end.

Fixpoint den_seq (l : list re) (pos : nat) (w rest : str) : Prop :=
  match l with
  | [] => w = []
  | x :: t => exists w1 w2, w = w1 ++ w2 /\ den x pos w1 (w2 ++ rest) /\ den_seq t (pos + length w1) w2 rest
  end.

(* re.match(p, s) can succeed: some prefix of s is in the language of p *)
Definition matchable (p : regex) (s : str) : Prop := exists w rest, s = w ++ rest /\ den_seq p 0 w rest.
