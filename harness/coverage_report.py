#!/usr/bin/env python3
"""coverage_report.py <dir> — after `CUV_COVER=<dir> ./check <ID> --tier quick` for all IDs: which executable lines of
/repo/cardutil the implementation runs of the checks never reached (development aid, not a check)."""
import ast
import json
import os
import sys

d = sys.argv[1]
seen = {}
for fn in os.listdir(d):
    for k, v in json.load(open(os.path.join(d, fn))).items():
        seen.setdefault(os.path.realpath(k), set()).update(v)
root = '/repo/cardutil'
for dp, _, fs in os.walk(root):
    for f in sorted(fs):
        if not f.endswith('.py') or '/vendor' in dp:
            continue
        p = os.path.realpath(os.path.join(dp, f))
        src = open(p).read()
        tree = ast.parse(src)
        lines = set()
        for node in ast.walk(tree):
            if isinstance(node, ast.stmt) and not isinstance(node, (ast.FunctionDef, ast.ClassDef, ast.Import, ast.ImportFrom)):
                if isinstance(node, ast.Expr) and isinstance(node.value, ast.Constant) and isinstance(node.value.value, str):
                    continue                      # docstring
                lines.add(node.lineno)
        got = seen.get(p, set())
        miss = sorted(lines - got)
        print('%-40s %4d statements, %4d never executed: %s' % (os.path.relpath(p, '/repo'), len(lines), len(miss), miss[:60]))
