#!/usr/bin/env python3
"""Differential probe for coq/theories/model/Dec.v against CPython's decimal module.

A line-by-line Python mirror of dec_parse / dec_str / dec_fmt / dec_of_Z is compared with
decimal.Decimal(s), str(d), format(d, '0<w>f') on random short strings over a rich alphabet:

  * outcome DPlain d   must coincide with Decimal(s).as_tuple()      (and Decimal(s) must not raise)
  * outcome DInvalid   must coincide with decimal.InvalidOperation
  * outcome DUnmodelled: nothing is claimed (counted only)
  * dec_str d  = str(Decimal(s))  whenever it is Some; None exactly when str() uses exponent notation
  * dec_fmt w d = format(Decimal(s), '0<w>f') for w in 1..12;  '00f' is ValueError

usage:  dec_probe.py [N] [seed]            run the differential experiment (default 400000 cases)
        dec_probe.py --coq N seed out.v    additionally write a Coq file that checks the REAL Gallina
                                           definitions on N of the cases by vm_compute
"""
import decimal
import random
import sys
from decimal import Decimal

# ---------------------------------------------------------------- mirror of model/Unicode.v
UNI_SPACE = [c for c in range(256) if chr(c).isspace()]          # GenUnicode.uni_space (code points < 256 only)


def lstrip(s):
    i = 0
    while i < len(s) and ord(s[i]) in UNI_SPACE:
        i += 1
    return s[i:]


def strip(s):
    return lstrip(lstrip(s)[::-1])[::-1]


# ---------------------------------------------------------------- mirror of model/Dec.v
def is_dig(c):
    return 48 <= ord(c) <= 57


def plain_char(c):
    return is_dig(c) or c in '+-.'


def literal_letter(c):
    o = ord(c)
    if 65 <= o <= 90:
        o += 32
    return o in (97, 101, 102, 105, 110, 115, 116, 121)


def maybe_char(c):
    return plain_char(c) or c == '_' or literal_letter(c)


def norm_coeff(l):
    i = 0
    while i < len(l) and l[i] == 0:
        i += 1
    l = l[i:]
    return l if l else [0]


def parse_plain(t):
    neg, body = False, t
    if t[:1] == '-':
        neg, body = True, t[1:]
    elif t[:1] == '+':
        body = t[1:]
    i = 0
    while i < len(body) and is_dig(body[i]):
        i += 1
    ip, rest = body[:i], body[i:]

    def finish(fr):
        ds = ip + fr
        if not ds:
            return ('invalid',)
        return ('plain', (neg, norm_coeff([ord(c) - 48 for c in ds]), len(fr)))
    if not rest:
        return finish('')
    if rest[0] == '.' and all(is_dig(c) for c in rest[1:]):
        return finish(rest[1:])
    return ('invalid',)


def dec_parse(s):
    t = strip(s)
    if not all(ord(c) < 128 for c in t):
        return ('unmodelled',)
    if not all(maybe_char(c) for c in t):
        return ('invalid',)
    if all(plain_char(c) for c in t):
        return parse_plain(t)
    return ('unmodelled',)


def dec_text(d):
    neg, digits, scale = d
    body = [0] * max(0, scale + 1 - len(digits)) + digits
    k = len(body) - scale
    ip, fr = body[:k], body[k:]
    return ''.join(map(str, ip)) + ('.' + ''.join(map(str, fr)) if scale > 0 else '')


def dec_str(d):
    neg, digits, scale = d
    if scale <= len(digits) + 5:
        return ('-' if neg else '') + dec_text(d)
    return None


def dec_fmt(w, d):
    sg = '-' if d[0] else ''
    body = dec_text(d)
    return sg + '0' * max(0, w - (len(sg) + len(body))) + body


def dec_of_int(z):
    return (z < 0, [int(c) for c in str(abs(z))], 0)


# ---------------------------------------------------------------- CPython side
def py_outcome(s):
    try:
        d = Decimal(s)
    except decimal.InvalidOperation:
        return ('invalid',), None
    return ('valid',), d


ALPHABET = ' +-.0123456789eE_nNaAiIfFtTyYsS\t\n\x0b\x1c\x1f\xa0\x85\u2003\u0663\uff11\u0968$xX,/\x00#'
WEIGHTED = ALPHABET + '0123456789' * 4 + '...--++  '


def rand_case(rng):
    n = rng.choice((0, 1, 1, 2, 2, 3, 3, 4, 5, 6, 7, 8, 10, 14))
    k = rng.random()
    if k < 0.45:
        return ''.join(rng.choice(WEIGHTED) for _ in range(n))
    if k < 0.75:                      # mostly numeric bodies with decoration
        body = ''.join(rng.choice('0000123456789.') for _ in range(n))
        return (rng.choice(['', '', ' ', '\t', '\xa0', '\u2003', '\x1c', '_']) + rng.choice(['', '', '+', '-', '- ', '+-'])
                + body + rng.choice(['', '', '', 'e3', 'E-2', 'e', '_', '.', '$']) + rng.choice(['', '', ' ', '\n', '\x85', ' \u2003', '\u2003 ']))
    if k < 0.9:                       # many leading zeros / long fractions: printing with and without exponent
        return rng.choice(['', '-', '+']) + '0' * rng.randrange(0, 4) + '.' + '0' * rng.randrange(0, 10) + \
            ''.join(rng.choice('0123456789') for _ in range(rng.randrange(0, 4)))
    return rng.choice(['inf', 'Infinity', 'nan', 'sNaN', 'NaN12', '-Inf', 'infinit', 'na', 'snan1', 'In_f', 'I_n_f']) \
        if rng.random() < .5 else ''.join(rng.choice(ALPHABET) for _ in range(n))


def check_case(s, stats, fails):
    m = dec_parse(s)
    (p,), d = py_outcome(s)
    stats[m[0]] = stats.get(m[0], 0) + 1
    if m[0] == 'invalid':
        if p != 'invalid':
            fails.append(('model says invalid, CPython accepts', s))
        return
    if m[0] == 'unmodelled':
        stats['unmodelled_py_' + p] = stats.get('unmodelled_py_' + p, 0) + 1
        return
    neg, digits, scale = m[1]
    if p != 'valid':
        fails.append(('model says plain, CPython raises', s))
        return
    tup = d.as_tuple()
    if (tup.sign, tuple(tup.digits), tup.exponent) != (int(neg), tuple(digits), -scale):
        fails.append(('tuple differs', s, m[1], tup))
        return
    st = dec_str(m[1])
    real = str(d)
    if st is None:
        stats['str_exp'] = stats.get('str_exp', 0) + 1
        if 'E' not in real:
            fails.append(('dec_str None but CPython prints plainly', s, real))
    else:
        if st != real:
            fails.append(('dec_str differs', s, st, real))
        if dec_parse(st) != m:
            fails.append(('dec_parse (dec_str d) <> d', s))
    for w in range(1, 13):
        if dec_fmt(w, m[1]) != format(d, '0' + str(w) + 'f'):
            fails.append(('dec_fmt differs', s, w, dec_fmt(w, m[1]), format(d, '0' + str(w) + 'f')))
            break
        if dec_parse(dec_fmt(w, m[1])) != m:
            fails.append(('dec_parse (dec_fmt w d) <> d', s, w))
            break


def coq_str(s):
    return '[' + '; '.join(str(ord(c)) for c in s) + ']%N'


def coq_dec(d):
    neg, digits, scale = d
    return '(mkdec %s [%s]%%N %d)' % ('true' if neg else 'false', '; '.join(map(str, digits)), scale)


def write_coq(cases, path):
    """cases checked by the real Gallina functions: dec_parse outcome, dec_str, dec_fmt at two widths, as CPython says"""
    rows = []
    for s in cases:
        m = dec_parse(s)
        (p,), d = py_outcome(s)
        if m[0] == 'plain':
            tup = d.as_tuple()
            dd = (bool(tup.sign), list(tup.digits), -tup.exponent)
            real = str(d)
            so = 'None' if 'E' in real else 'Some ' + coq_str(real)
            rows.append('(%s, DPlain %s, %s, %s, %s)' % (coq_str(s), coq_dec(dd), so,
                                                        coq_str(format(d, '01f')), coq_str(format(d, '09f'))))
        elif m[0] == 'invalid':
            assert p == 'invalid'
            rows.append('(%s, DInvalid, None, []%%N, []%%N)' % coq_str(s))
        else:
            rows.append('(%s, DUnmodelled, None, []%%N, []%%N)' % coq_str(s))
    with open(path, 'w') as f:
        f.write('(* generated by harness/dec_probe.py --coq: the Gallina definitions against CPython on %d texts *)\n' % len(cases))
        f.write('From Coq Require Import List NArith Bool.\nRequire Import CU.model.Prim CU.model.Dec.\nImport ListNotations.\n')
        f.write('Definition dparse_eqb (a b : dparse) : bool :=\n  match a, b with\n'
                '  | DPlain x, DPlain y => Bool.eqb (d_neg x) (d_neg y) && str_eqb (d_digits x) (d_digits y) && Nat.eqb (d_scale x) (d_scale y)\n'
                '  | DInvalid, DInvalid | DUnmodelled, DUnmodelled => true\n  | _, _ => false\n  end.\n')
        f.write('Definition ostr_eqb (a b : option str) : bool :=\n  match a, b with Some x, Some y => str_eqb x y | None, None => true | _, _ => false end.\n')
        f.write('Definition row_ok (r : str * dparse * option str * str * str) : bool :=\n'
                '  let \'(s, p, so, f1, f9) := r in\n  dparse_eqb (dec_parse s) p &&\n'
                '  match p with\n  | DPlain d => ostr_eqb (dec_str d) so && str_eqb (dec_fmt 1 d) f1 && str_eqb (dec_fmt 9 d) f9\n  | _ => true\n  end.\n')
        f.write('Definition rows : list (str * dparse * option str * str * str) := [\n  ' + ';\n  '.join(rows) + '].\n')
        f.write('Example rows_ok : forallb row_ok rows = true.\nProof. vm_compute. reflexivity. Qed.\n')


def main():
    args = sys.argv[1:]
    coq = None
    if args and args[0] == '--coq':
        coq = (int(args[1]), args[3])
        args = ['400000', args[2]]
    n = int(args[0]) if args else 400000
    seed = int(args[1]) if len(args) > 1 else 0
    rng = random.Random(seed)
    stats, fails = {}, []
    fixed = ['', '+', '-', '.', '+.', '-.', '12', '12.', '.5', '0012.50', '00012.50', '0.00', '-0', '-0.00', '1e3', '1E+3',
             'Inf', 'NaN', 'sNaN', '1_0', '_1', '1 2', ' 1 ', '\x1c1\x1f', '1\x1c2', '\u0663', '\uff11\uff12.\uff15', '1$',
             '1 \u2003', '\u20031', '0.0000001', '0.000001', '0.0000010', '0.0000000', '.000000', '-.0000000', '1.2.3', '1-2',
             '+-1', '\x001', '1\x00', ' ', '\t', '\xa0', '\u2003', '$\u0663', '$ ', ' $', '+ 1', '1\n', '\n1', '1\x0b']
    cases = fixed + [rand_case(rng) for _ in range(n)]
    for s in cases:
        check_case(s, stats, fails)
    # Decimal(int) and the invalid format string
    for z in [0, 1, -1, 7, -12, 10, 100, 12345678901234567890, -10 ** 30] + [rng.randrange(-10 ** 9, 10 ** 9) for _ in range(20000)]:
        d = dec_of_int(z)
        t = Decimal(z).as_tuple()
        if (t.sign, tuple(t.digits), t.exponent) != (int(d[0]), tuple(d[1]), 0):
            fails.append(('dec_of_Z differs', z))
    try:
        format(Decimal('1.5'), '00f')
        fails.append(('00f accepted',))
    except ValueError:
        pass
    print('cases', len(cases), 'seed', seed)
    for k in sorted(stats):
        print('  %-28s %d' % (k, stats[k]))
    print('disagreements', len(fails))
    for f in fails[:20]:
        print('  ', repr(f))
    if coq:
        k, path = coq
        # a spread of outcomes
        pick = fixed + [s for s in cases[len(fixed):] if len(s) <= 12][:k]
        write_coq(pick, path)
        print('wrote', path, len(pick), 'rows')
    return 1 if fails else 0


if __name__ == '__main__':
    sys.exit(main())
