"""engine.py — build, proof signal, correspondence run, verdict, evidence, replay.

Signals per run of a property P (DESIGN.md section 4):
  (a) proof:   regenerate gen/*.v from /repo, make P's cone (full .vo), coqc props/P.v, read Print Assumptions
  (b) corr:    extracted model vs implementation on generated cases (P's domain and observable)
  (c) oracle:  the property judged on the implementation's own outputs (spec functions / relations)
"""
import collections
import fcntl
import hashlib
import importlib
import json
import math
import os
import random
import re
import shutil
import subprocess
import sys
import tempfile
import time

HERE = os.path.dirname(os.path.abspath(__file__))
VERIF = os.path.dirname(HERE)
REPO = os.environ.get('VERIF_REPO', '/repo')
COQ = os.path.join(VERIF, 'coq')
BIN = os.path.join(VERIF, 'bin', 'cu_model')
PY = '/venv/bin/python'
NPROC = min(16, os.cpu_count() or 4)

FORBIDDEN = re.compile(r'\b(Admitted|admit|Axiom|Axioms|Parameter|Parameters|Conjecture|Conjectures|Admit Obligations|'
                       r'Unset Guard Checking|Unset Positivity Checking|Unset Universe Checking|bypass_check|'
                       r'type-in-type|impredicative-set)\b')
STATEMENT = re.compile(r'^\s*(Theorem|Lemma|Corollary|Example|Fact|Remark|Proposition)\s+([A-Za-z0-9_\']+)', re.M)


def impl_env():
    env = dict(os.environ)
    env.update(PYTHONPATH=REPO + os.pathsep + HERE, PYTHONHASHSEED='0', PYTHONDONTWRITEBYTECODE='1', PYTHONUTF8='1')
    return env


def sh(cmd, cwd=None, timeout=1200, env=None):
    try:
        p = subprocess.run(cmd, cwd=cwd, timeout=timeout, env=env, stdout=subprocess.PIPE, stderr=subprocess.STDOUT,
                           text=True, errors='replace')
        return p.returncode, p.stdout
    except subprocess.TimeoutExpired as ex:
        out = ex.stdout or ''
        if isinstance(out, bytes):
            out = out.decode('utf8', 'replace')
        return 124, out + '\n*** timeout ***'


# ------------------------------------------------------------------ build
class Build:
    def __init__(self):
        self.gen_ok = True
        self.gen_msg = ''
        self.driver_ok = False
        self.driver_msg = ''
        self.proof_ok = False
        self.proof_msg = ''
        self.failed_file = None
        self.assumptions = []
        self.obligations = 0
        self.discharged = 0
        self.cone = []
        self.forbidden = []
        self.prop_files = []


def coq_files():
    out = []
    for l in open(os.path.join(COQ, '_CoqProject')):
        l = l.strip()
        if l.endswith('.v'):
            out.append(l)
    return out


def ensure_makefile():
    mk = os.path.join(COQ, 'Makefile')
    cp = os.path.join(COQ, '_CoqProject')
    if not os.path.exists(mk) or os.path.getmtime(mk) < os.path.getmtime(cp):
        rc, out = sh(['coq_makefile', '-f', '_CoqProject', '-o', 'Makefile'], cwd=COQ)
        if rc != 0:
            raise RuntimeError('coq_makefile failed: ' + out)


def cone_of(vfile):
    """transitive dependencies (project files) of a .v file, from coqdep"""
    rc, out = sh(['coqdep', '-Q', 'theories', 'CU'] + coq_files(), cwd=COQ)
    deps = {}
    for line in out.splitlines():
        if ':' not in line:
            continue
        lhs, rhs = line.split(':', 1)
        tgt = [t for t in lhs.split() if t.endswith('.vo')]
        if not tgt:
            continue
        src = tgt[0][:-1]
        deps[src] = [d[:-1] for d in rhs.split() if d.endswith('.vo')]
    seen, todo = [], [vfile]
    while todo:
        f = todo.pop()
        if f in seen:
            continue
        seen.append(f)
        todo.extend(deps.get(f, []))
    return sorted(seen)


def build(prop_id, want_proof=True):
    """Regenerate, make the property's cone and the driver.  Serialised by a file lock."""
    b = Build()
    lock = open(os.path.join(VERIF, '.build.lock'), 'w')
    fcntl.flock(lock, fcntl.LOCK_EX)
    try:
        # (1) translator
        rc, out = sh([PY, '-B', os.path.join(HERE, 'gen_coq.py'), REPO, os.path.join(COQ, 'theories', 'gen')],
                     env=impl_env())
        if rc != 0:
            b.gen_ok = False
            b.gen_msg = out.strip()
        ensure_makefile()
        # (2) driver: model + spec + extraction (no proofs in its cone)
        rc, out = sh(['make', '-j%d' % NPROC, 'theories/extract/Extract.vo'], cwd=COQ, timeout=1500)
        if rc == 0:
            ml = os.path.join(VERIF, 'ocaml', 'model.ml')
            drv = os.path.join(VERIF, 'ocaml', 'driver.ml')
            if (not os.path.exists(BIN) or os.path.getmtime(BIN) < os.path.getmtime(ml)
                    or os.path.getmtime(BIN) < os.path.getmtime(drv)):
                os.makedirs(os.path.dirname(BIN), exist_ok=True)
                rc2, out2 = sh(['ocamlfind', 'ocamlopt', '-w', '-a', 'model.mli', 'model.ml', 'driver.ml', '-o', BIN + '.new'],
                               cwd=os.path.join(VERIF, 'ocaml'), timeout=600)
                if rc2 == 0:
                    os.replace(BIN + '.new', BIN)
                    b.driver_ok = True
                else:
                    b.driver_msg = out2[-2000:]
            else:
                b.driver_ok = True
        else:
            b.driver_msg = out[-2000:]
        # (3) proof cone: props/<ID>.v and any companion files props/<ID><suffix>.v (e.g. C09ipm.v)
        if want_proof:
            pdir = os.path.join(COQ, 'theories', 'props')
            listed = set(coq_files())
            prop_vs = sorted('theories/props/' + f for f in os.listdir(pdir)
                             if re.fullmatch(re.escape(prop_id) + r'([a-z][A-Za-z0-9_]*)?\.v', f) and 'theories/props/' + f in listed)
            if 'theories/props/%s.v' % prop_id not in prop_vs:
                b.proof_msg = 'no property file theories/props/%s.v in the project' % prop_id
            else:
                b.prop_files = prop_vs
                cone = set()
                for pv in prop_vs:
                    cone.update(cone_of(pv))
                b.cone = sorted(cone)
                rc, out = sh(['make', '-j%d' % NPROC] + [pv + 'o' for pv in prop_vs], cwd=COQ, timeout=1500)
                texts = {}
                for f in b.cone:
                    try:
                        texts[f] = open(os.path.join(COQ, f), encoding='utf8').read()
                    except OSError:
                        texts[f] = ''
                for f, t in texts.items():
                    if '/gen/' in f:
                        continue
                    stripped = re.sub(r'\(\*.*?\*\)', '', t, flags=re.S)
                    for m in FORBIDDEN.finditer(stripped):
                        b.forbidden.append('%s: %s' % (f, m.group(0)))
                names = [(f, m.group(2)) for f, t in texts.items() for m in STATEMENT.finditer(t)]
                b.obligations = len(names)
                if rc == 0 and not b.forbidden and b.gen_ok:
                    ok_all = True
                    for pv in prop_vs:
                        # re-check the property file itself and read its Print Assumptions output
                        tmp = tempfile.mkdtemp(prefix='cuv-')
                        try:
                            rc3, out3 = sh(['coqc', '-Q', 'theories', 'CU', '-o', os.path.join(tmp, os.path.basename(pv) + 'o'), pv],
                                           cwd=COQ, timeout=900)
                        finally:
                            shutil.rmtree(tmp, ignore_errors=True)
                        if rc3 == 0:
                            b.assumptions += parse_assumptions(out3)
                        else:
                            ok_all = False
                            b.proof_msg = out3[-3000:]
                            b.failed_file = pv
                    bad = [a for a in b.assumptions if not a['closed'] and not all(allowed_axiom(x) for x in a['axioms'])]
                    if bad:
                        b.proof_msg = 'unexpected axioms: ' + json.dumps(bad)
                    elif ok_all and b.assumptions:
                        b.proof_ok = True
                        b.discharged = b.obligations
                    elif ok_all:
                        b.proof_msg = 'no Print Assumptions output in the property files'
                else:
                    b.proof_msg = (b.gen_msg + '\n' + '\n'.join(b.forbidden) + '\n' + out[-3000:]).strip()
                    m = re.search(r'File "\./([^"]+)", line (\d+)', out)
                    if m:
                        b.failed_file = m.group(1)
                    if rc != 0:
                        # count what did get checked
                        done = [f for f in b.cone if os.path.exists(os.path.join(COQ, f + 'o'))
                                and os.path.getmtime(os.path.join(COQ, f + 'o')) >= os.path.getmtime(os.path.join(COQ, f))]
                        b.discharged = sum(1 for f, _ in names if f in done)
    finally:
        fcntl.flock(lock, fcntl.LOCK_UN)
        lock.close()
    return b


STD_AXIOMS = ('functional_extensionality_dep', 'proof_irrelevance', 'classic', 'JMeq_eq', 'eq_rect_eq',
              'propositional_extensionality', 'constructive_definite_description')


def allowed_axiom(name):
    # primitive integers/floats/arrays shown by Print Assumptions are kernel primitives, not axioms of ours
    return name.split('.')[-1] in STD_AXIOMS or name.startswith(('Uint63.', 'PrimFloat.', 'PArray.'))


def parse_assumptions(out):
    """One entry per Print Assumptions command in the output."""
    res = []
    cur = None
    for line in out.splitlines():
        if line.startswith('Closed under the global context'):
            res.append({'closed': True, 'axioms': []})
            cur = None
        elif line.startswith('Axioms:'):
            cur = {'closed': False, 'axioms': []}
            res.append(cur)
        elif cur is not None:
            m = re.match(r'^([A-Za-z_][A-Za-z0-9_.\']*)\s*:', line)
            if m:
                cur['axioms'].append(m.group(1))
    return res


# ------------------------------------------------------------------ running cases
def shard(items, n):
    n = max(1, min(n, len(items)))
    k = math.ceil(len(items) / n)
    return [items[i:i + k] for i in range(0, len(items), k)]


def run_impl(module_name, cases, per_case_timeout=5.0, flags=(), extra_env=None):
    """Run prop.impl(case) for all cases in worker subprocesses.  Returns list of outcomes (JSON values)."""
    if not cases:
        return []
    tmp = tempfile.mkdtemp(prefix='cuv-')
    try:
        nsh = min(NPROC, max(1, len(cases) // 20))
        allc = list(enumerate(cases))
        shards = [allc[i::nsh] for i in range(nsh)]
        procs = []
        for i, sh_cases in enumerate(shards):
            inp = os.path.join(tmp, 'in%d.json' % i)
            outp = os.path.join(tmp, 'out%d.jsonl' % i)
            with open(inp, 'w') as f:
                json.dump([c for _, c in sh_cases], f)
            cmd = [PY, '-B'] + list(flags) + [os.path.join(HERE, 'worker.py'), module_name, inp, outp, str(per_case_timeout)]
            procs.append((subprocess.Popen(cmd, env=dict(impl_env(), **(extra_env or {})), cwd=tmp, stdout=subprocess.DEVNULL, stderr=subprocess.PIPE),
                          sh_cases, outp))
        results = [None] * len(cases)
        deadline = time.time() + 60 + per_case_timeout * 2 * max(len(s) for s in shards) / 4 + 600
        for p, sh_cases, outp in procs:
            try:
                _, err = p.communicate(timeout=max(5, deadline - time.time()))
            except subprocess.TimeoutExpired:
                p.kill()
                _, err = p.communicate()
            outs = []
            try:
                with open(outp) as f:
                    outs = [json.loads(l) for l in f if l.strip()]
            except OSError:
                pass
            # trailer line of the worker's thread pass: results that differ when the calls run concurrently
            if outs and isinstance(outs[-1], dict) and '_thread_diffs' in outs[-1]:
                for j, r in outs.pop()['_thread_diffs']:
                    if 0 <= j < len(outs) and isinstance(outs[j], dict):
                        outs[j]['_threads'] = r
                    elif j == -1 and outs and isinstance(outs[0], dict):
                        outs[0]['_threads'] = r
            for j, (idx, _) in enumerate(sh_cases):
                if j < len(outs):
                    results[idx] = outs[j]
                elif j == len(outs):
                    results[idx] = {'out': 'CRASH', 'stderr': (err or b'').decode('utf8', 'replace')[-500:]}
                else:
                    results[idx] = {'out': 'NOTRUN'}
        return results
    finally:
        shutil.rmtree(tmp, ignore_errors=True)


def run_model(lines):
    """Feed lines to the extracted driver (interleaved shards); returns list of output lines or None if no driver."""
    if not lines:
        return []
    if not os.path.exists(BIN):
        return None
    n = min(NPROC, max(1, len(lines) // 20))
    shards = [lines[i::n] for i in range(n)]
    procs = []
    for s in shards:
        p = subprocess.Popen(['/bin/sh', '-c', 'ulimit -s unlimited 2>/dev/null; exec "$0"', BIN], stdin=subprocess.PIPE,
                             stdout=subprocess.PIPE, stderr=subprocess.PIPE)
        procs.append((p, s))
    import threading
    outs = [None] * len(procs)

    def feed(i, p, s):
        data = ('\n'.join(s) + '\n').encode('ascii')
        o, e = p.communicate(data)
        outs[i] = o.decode('ascii', 'replace').splitlines()
    th = [threading.Thread(target=feed, args=(i, p, s)) for i, (p, s) in enumerate(procs)]
    [t.start() for t in th]
    [t.join() for t in th]
    res = [None] * len(lines)
    for i, ((p, s), o) in enumerate(zip(procs, outs)):
        o = (o or [])
        o = o + ['MODELCRASH'] * (len(s) - len(o))
        res[i::n] = o[:len(s)]
    return res


# ------------------------------------------------------------------ known findings
def load_known(prop_id):
    known = {}
    try:
        for line in open(os.path.join(VERIF, 'known_findings.txt'), encoding='utf8'):
            m = re.match(r'^finding:\s+property=(\S+)\s+sig=(\S+)\s+(.*)$', line.strip())
            if m and m.group(1) == prop_id:
                known[m.group(2)] = m.group(3)
    except OSError:
        pass
    return known


# ------------------------------------------------------------------ main flow
def load_prop(prop_id):
    sys.path.insert(0, HERE)
    return importlib.import_module('props.' + prop_id.lower())


# Environment profiles of the implementation workers.  The properties hold whatever the environment of the process is, and
# the model has no environment, so half of the cases (the odd ones; recorded in the case as `_env`, honoured by replay) run
# under profile B: optimised mode (assert statements removed), UserWarning / RuntimeWarning raised as errors, DEBUG logging
# enabled (what the tools' --debug does), a local time zone with daylight saving, the C locale.
ENV_PROFILES = {
    'A': {'flags': (), 'env': {}},
    'B': {'flags': ('-O', '-W', 'error::UserWarning', '-W', 'error::RuntimeWarning'),
          'env': {'TZ': 'EST5EDT,M3.2.0,M11.1.0', 'CUV_DEBUG_LOG': '1', 'LC_ALL': 'C', 'LANG': 'C'}},
}


def evaluate(prop, cases):
    """impl + model + judge for a list of cases; returns (problems, stats)"""
    by_flags = collections.defaultdict(list)
    use_profiles = getattr(prop, 'ENV_PROFILES', True)
    for i, c in enumerate(cases):
        if '_env' not in c and use_profiles and not c.get('py_flags'):
            c['_env'] = 'B' if i % 2 else 'A'
        by_flags[(tuple(c.get('py_flags', ())), c.get('_env', 'A'))].append(i)
    impl_out = [None] * len(cases)
    for (flags, envname), idxs in by_flags.items():
        prof = ENV_PROFILES.get(envname, ENV_PROFILES['A'])
        outs = run_impl('props.' + prop.ID.lower(), [cases[i] for i in idxs],
                        per_case_timeout=getattr(prop, 'CASE_TIMEOUT', 15.0), flags=tuple(flags) + tuple(prof['flags']), extra_env=prof['env'])
        for i, o in zip(idxs, outs):
            impl_out[i] = o
    lines, owner = [], []
    for i, c in enumerate(cases):
        for l in prop.model_lines(c, impl_out[i]):
            lines.append(l)
            owner.append(i)
    mo = run_model(lines)
    model_out = [[] for _ in cases]
    model_missing = mo is None
    if mo is not None:
        for i, o in zip(owner, mo):
            model_out[i].append(o)
    problems = []
    stats = collections.Counter()
    nontrivial = set()
    for i, c in enumerate(cases):
        io_ = impl_out[i]
        if isinstance(io_, dict) and io_.get('out') in ('HANG', 'CRASH', 'HARNESS', 'NOTRUN') and not getattr(prop, 'JUDGES_HANG', False):
            # the implementation did not come back (watchdog) or the worker failed on this case
            ps = [{'kind': 'oracle', 'sig': 'impl-' + io_['out'], 'msg': 'implementation run ended with %s %s' % (io_['out'], io_.get('err', io_.get('stderr', '')))}]
        else:
            try:
                ps = prop.judge(c, io_, None if model_missing else model_out[i])
            except Exception as ex:
                # the judge could not evaluate what the implementation returned (an outcome of a shape the unchanged code
                # never produces): that is reported with the case as its replay, never swallowed and never a bare crash
                ps = [{'kind': 'oracle', 'sig': 'result-not-judgeable', 'msg': 'the result could not be judged (%s: %s): %s' % (type(ex).__name__, ex, json.dumps(io_)[:200])}]
            if isinstance(io_, dict) and '_threads' in io_:
                ps = ps + [{'kind': 'oracle', 'sig': 'differs-when-called-concurrently-from-threads',
                            'msg': 'the same call made while other threads use the library gives %s' % json.dumps(io_['_threads'])[:300]}]
        for p in ps:
            p['case'] = c
            p['impl'] = impl_out[i]
            p['model'] = model_out[i]
            problems.append(p)
        if not model_missing:
            stats['model_lines'] += len(model_out[i])
            if any(o.startswith('UNMODELLED') for o in model_out[i]):
                stats['unmodelled'] += 1
            elif model_out[i]:
                stats['traces_validated'] += 1
        if prop.nontrivial(c, impl_out[i]):
            nontrivial.add(hashlib.sha1(json.dumps(c, sort_keys=True).encode()).hexdigest())
        stats['label:' + prop.label(c)] += 1
    stats['nontrivial'] = len(nontrivial)
    stats['model_missing'] = int(model_missing)
    return problems, stats


def write_replay(prop_id, payload):
    d = os.environ.get('VERIF_REPLAY_DIR') or os.path.join(VERIF, 'replays')
    os.makedirs(d, exist_ok=True)
    h = hashlib.sha1(json.dumps(payload, sort_keys=True, default=str).encode()).hexdigest()[:12]
    path = os.path.join(d, '%s-%s.json' % (prop_id, h))
    with open(path, 'w') as f:
        json.dump(payload, f, indent=1, default=str)
    return path


def corpus_cases(prop_id):
    d = os.path.join(VERIF, 'corpus', prop_id)
    out = []
    if os.path.isdir(d):
        for fn in sorted(os.listdir(d)):
            if fn.endswith('.json'):
                with open(os.path.join(d, fn)) as f:
                    j = json.load(f)
                out.extend(j if isinstance(j, list) else [j])
    return out


def shorten(x, n=240):
    """evidence samples: keep the shape of a case, cut long hex strings"""
    if isinstance(x, str) and len(x) > n:
        return x[:n] + '...(%d chars)' % len(x)
    if isinstance(x, list):
        return [shorten(y, n) for y in x[:12]] + (['...(%d items)' % len(x)] if len(x) > 12 else [])
    if isinstance(x, dict):
        return {k: shorten(v, n) for k, v in x.items()}
    return x


def trusted_base(b):
    return [
        'Coq 8.16.1 kernel (coqc, full .vo build; vm_compute used for finite table facts; no native_compute)',
        'Print Assumptions under every property theorem: ' +
        ('all closed under the global context' if all(a['closed'] for a in b.assumptions) else json.dumps(b.assumptions)),
        'translators harness/gen_coq.py + harness/rx.py (config.py incl. the DE43 pattern via CPython re._parser, CPython codec / unicodedata / int() tables -> theories/gen/*.v), re-run on this run',
        'extraction plugin with ExtrOcamlBasic only (bool, option, unit, list, prod, sumbool, sumor, andb/orb inlined); '
        'no Extract Constant/Inductive of our own; ocaml/driver.ml line I/O glue; used only to run the model',
        'correspondence harness (generators, canonicaliser, comparer); the model is hand-written and tied to /repo only by it',
    ]


def coqchk(prop_files):
    """independent re-check of the compiled property files and everything they depend on; returns the context summary"""
    mods = ['CU.props.' + os.path.basename(f)[:-2] for f in prop_files]
    rc, out = sh(['coqchk', '-o', '-silent', '-Q', 'theories', 'CU'] + mods, cwd=COQ, timeout=2400)
    summary = out[out.find('CONTEXT SUMMARY'):] if 'CONTEXT SUMMARY' in out else out[-1500:]
    items = {}
    for m in re.finditer(r'^\* ([^:\n]+):\s*(.*?)(?=^\* |\Z)', summary, flags=re.S | re.M):
        items[m.group(1).strip()] = ' '.join(m.group(2).split())
    return rc == 0, items


def run_check(prop_id, tier, seed):
    t0 = time.time()
    prop = load_prop(prop_id)
    b = build(prop_id)
    chk = None
    if tier == 'thorough' and b.proof_ok:
        ok, items = coqchk(b.prop_files)
        chk = {'ok': ok, 'summary': items}
        if not ok or items.get('Axioms', '<none>') != '<none>' and not all(allowed_axiom(a.split()[0]) for a in items.get('Axioms', '').split(',') if a.strip()):
            b.proof_ok = False
            b.proof_msg = 'coqchk: ' + json.dumps(items)
    rng = random.Random('%s:%s' % (seed, prop_id))
    search_tier = tier if (b.proof_ok and b.driver_ok) else 'thorough'
    cases = corpus_cases(prop_id) + list(prop.gen(rng, search_tier))
    problems, stats = evaluate(prop, cases)
    known = load_known(prop_id)
    oracle = [p for p in problems if p['kind'] == 'oracle']
    corr = [p for p in problems if p['kind'] == 'corr']
    new_oracle = [p for p in oracle if p['sig'] not in known]
    known_hit = sorted({p['sig'] for p in oracle if p['sig'] in known})
    if corr and not new_oracle and search_tier != 'thorough' and hasattr(prop, 'gen'):
        # correspondence broke: widen the search for a failing input
        more = list(prop.gen(random.Random('%s:%s:wide' % (seed, prop_id)), 'thorough'))
        p2, s2 = evaluate(prop, more)
        stats.update(s2)
        cases += more
        new_oracle += [p for p in p2 if p['kind'] == 'oracle' and p['sig'] not in known]
        corr += [p for p in p2 if p['kind'] == 'corr']
    lines = []
    violations = 0
    for sig in known_hit:
        lines.append('KNOWN-FINDING: property=%s %s' % (prop_id, known[sig]))
    if new_oracle:
        seen = set()
        for p in new_oracle:
            if p['sig'] in seen:
                continue
            seen.add(p['sig'])
            path = write_replay(prop_id, {'property': prop_id, 'kind': 'oracle', 'sig': p['sig'], 'what': p['msg'],
                                          'case': p['case'], 'impl': p['impl'], 'model': p['model'], 'seed': seed})
            lines.append('VIOLATION property=%s replay=%s' % (prop_id, path))
            violations += 1
            if len(seen) >= 5:
                break
    elif not b.proof_ok:
        path = write_replay(prop_id, {'property': prop_id, 'kind': 'proof', 'file': b.failed_file,
                                      'what': 'proof obligation no longer checks', 'message': b.proof_msg,
                                      'gen_ok': b.gen_ok, 'gen_msg': b.gen_msg, 'cases_searched': len(cases)})
        lines.append('VIOLATION property=%s replay=%s no-failing-input-found' % (prop_id, path))
        violations += 1
    elif corr or not b.driver_ok or stats.get('model_missing'):
        p = corr[0] if corr else None
        path = write_replay(prop_id, {'property': prop_id, 'kind': 'correspondence',
                                      'what': (p['msg'] if p else 'model driver could not be built: ' + b.driver_msg),
                                      'case': p['case'] if p else None, 'impl': p['impl'] if p else None,
                                      'model': p['model'] if p else None, 'seed': seed, 'cases_searched': len(cases)})
        lines.append('VIOLATION property=%s replay=%s no-failing-input-found' % (prop_id, path))
        violations += 1
    wall = time.time() - t0
    dist = {k[6:]: v for k, v in stats.items() if k.startswith('label:')}
    samples = [shorten(c) for c in (cases[:3] + ([cases[len(cases) // 2], cases[-1]] if len(cases) > 5 else []))]
    ev = {
        'property_id': prop_id, 'tier': tier, 'seed': int(seed), 'level': 'proof',
        'coverage': {
            'obligations': b.obligations, 'discharged': b.discharged,
            'checker_cmd': 'make -C coq theories/props/%s.vo && coqc -Q theories CU theories/props/%s.v (Print Assumptions)' % (prop_id, prop_id),
            'trusted_base': trusted_base(b),
            'assumptions_reported': b.assumptions,
            'theorem_files': b.cone,
            'proof_ok': b.proof_ok, 'translator_ok': b.gen_ok, 'driver_ok': b.driver_ok, 'coqchk': chk,
            'evaluations': len(cases), 'distinct_nontrivial': stats.get('nontrivial', 0),
            'rule': getattr(prop, 'RULE', ''),
            'samples': samples,
            'traces_validated_against_impl': stats.get('traces_validated', 0),
            'unmodelled': stats.get('unmodelled', 0),
            'input_distribution': dist,
            'environment_profiles': {'A (default)': sum(1 for c in cases if c.get('_env', 'A') == 'A'),
                                     'B (python -O, UserWarning/RuntimeWarning as errors, DEBUG logging on, DST time zone, C locale)': sum(1 for c in cases if c.get('_env') == 'B')},
            'thread_pass': bool(getattr(prop, 'THREADS', False)),
            'codec_alias_spellings': bool(getattr(prop, 'CODEC_ALIASES', False)),
            'call_variants (bytearray / memoryview messages, positional arguments, earlier failing calls)': bool(getattr(prop, 'CALL_VARIANTS', False)),
            'correspondence_disagreements': len(corr),
            'oracle_failures': len(oracle), 'known_findings_hit': known_hit,
            'exhaustive': bool(getattr(prop, 'EXHAUSTIVE', {}).get(tier, False)),
        },
        'assumptions': getattr(prop, 'ASSUMPTIONS', []),
        'wall_s': round(wall, 2), 'violations': violations,
    }
    evdir = os.environ.get('VERIF_EVIDENCE_DIR') or os.path.join(VERIF, 'evidence')   # (override only for mutation experiments)
    os.makedirs(evdir, exist_ok=True)
    with open(os.path.join(evdir, prop_id + '.json'), 'w') as f:
        json.dump(ev, f, indent=1, default=str)
    for l in lines:
        print(l)
    print('%s tier=%s proof=%s obligations=%d/%d cases=%d nontrivial=%d corr_disagree=%d oracle_fail=%d wall=%.1fs' % (
        prop_id, tier, 'ok' if b.proof_ok else 'BROKEN', b.discharged, b.obligations, len(cases),
        stats.get('nontrivial', 0), len(corr), len(oracle), wall))
    return 1 if violations else 0


def run_replay(path):
    with open(path) as f:
        r = json.load(f)
    prop_id = r['property']
    if r.get('kind') == 'proof' or not r.get('case'):
        b = build(prop_id)
        print('replay %s: proof=%s driver=%s' % (prop_id, 'ok' if b.proof_ok else 'BROKEN', 'ok' if b.driver_ok else 'BROKEN'))
        if not b.proof_ok:
            print(b.proof_msg[-1500:])
            print('VIOLATION property=%s replay=%s no-failing-input-found' % (prop_id, path))
            return 1
        return 0
    prop = load_prop(prop_id)
    build(prop_id, want_proof=False)
    problems, _ = evaluate(prop, [r['case']])
    print('case:', json.dumps(r['case'])[:2000])
    if problems:
        for p in problems:
            print('%s: %s' % (p['kind'], p['msg']))
            print(' impl :', json.dumps(p['impl'])[:2000])
            print(' model:', json.dumps(p['model'])[:2000])
        print('VIOLATION property=%s replay=%s' % (prop_id, path))
        return 1
    print('replay passes on the current tree')
    return 0
