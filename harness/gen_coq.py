#!/usr/bin/env python3
"""Translator: /repo/cardutil/config.py + CPython codec/Unicode tables -> Coq data (theories/gen/*.v).

Run at the start of every check.  Fail-closed: anything it cannot represent raises GenError and the
caller reports the obligation "configuration is translatable" as broken.  The config module is parsed
with ast (not imported) so that a broken import cannot hide a change.
Files are rewritten only when their content changes, so that make stays incremental.
"""
import ast
import os
import sys
import unicodedata
import re
import rx

ASCII_CODECS = ['ascii', 'latin_1', 'cp1252', 'cp437', 'iso8859_15']
EBCDIC_CODECS = ['cp037', 'cp500', 'cp1140', 'cp273', 'cp1026', 'cp875', 'cp424']
CODECS = ASCII_CODECS + EBCDIC_CODECS


class GenError(Exception):
    pass


def coq_str(s):
    """Python str -> Coq `list N` literal."""
    if not isinstance(s, str):
        raise GenError(f'not a string: {s!r}')
    return '[' + '; '.join(str(ord(c)) for c in s) + ']%N'


def coq_nat(n):
    if not isinstance(n, int) or isinstance(n, bool) or n < 0 or n > 100000:
        raise GenError(f'not a small natural: {n!r}')
    return f'{n}%nat'


def load_config(repo):
    path = os.path.join(repo, 'cardutil', 'config.py')
    tree = ast.parse(open(path, encoding='utf8').read(), path)
    for node in tree.body:
        if isinstance(node, ast.Assign) and len(node.targets) == 1 and \
                isinstance(node.targets[0], ast.Name) and node.targets[0].id == 'config':
            try:
                return ast.literal_eval(node.value)
            except Exception as ex:
                raise GenError(f'config is not a literal: {ex}')
    raise GenError('no `config = {...}` assignment in config.py')


FTYPE = {'FIXED': 'FIXED', 'LLVAR': 'LLVAR', 'LLLVAR': 'LLLVAR'}
PTYPE = {'int': 'PTInt', 'long': 'PTInt', 'decimal': 'PTDec', 'datetime': 'PTDate'}
PROC = {'PAN': 'PPAN', 'PAN-PREFIX': 'PPANPREFIX', 'ICC': 'PICC', 'PDS': 'PPDS', 'DE43': 'PDE43'}


def field_cfg(c):
    if not isinstance(c, dict):
        raise GenError(f'bit config entry is not a dict: {c!r}')
    if 'field_type' not in c:
        raise GenError(f'bit config entry without field_type: {c!r}')
    ft = FTYPE.get(c['field_type'], 'FTOther')
    fl = c.get('field_length')
    fl = 'None' if fl is None else f'(Some {coq_nat(fl)})'
    pt = PTYPE.get(c.get('field_python_type'), 'PTStr')
    fmt = coq_str(c.get('field_date_format', '%y%m%d'))
    pr = PROC.get(c.get('field_processor'), 'PNone')
    if c.get('field_processor') == 'DE43':
        try:
            pc = rx.coq_cfg(c.get('field_processor_config'))
        except re.error as ex:
            raise GenError(f'DE43 regex does not compile: {ex}')
    else:
        pc = 'D43None'                  # field_processor_config is consulted by the DE43 processor only
    return f'mkfc {ft} {fl} {pt} {fmt} {pr} {pc}'


def gen_config(cfg):
    out = ['(* GENERATED from /repo/cardutil/config.py by harness/gen_coq.py — do not edit *)',
           'From Coq Require Import List NArith.', 'Require Import CU.model.Types.', 'Import ListNotations.', '']
    bc = cfg.get('bit_config')
    if not isinstance(bc, dict):
        raise GenError('bit_config is not a dict')
    rows = []
    for k, v in bc.items():
        if not (isinstance(k, str) and k.isascii() and k.isdigit() and str(int(k)) == k):
            raise GenError(f'bit_config key is not a canonical decimal: {k!r}')
        if not v:
            # the code treats an empty entry as "no config"; keep it out of the table
            continue
        rows.append(f'  ({coq_nat(int(k))}, {field_cfg(v)})')
    out.append('Definition packaged_bit_config : cfgT := [\n' + ';\n'.join(rows) + '\n].')
    out.append('')
    m = cfg.get('MAX_VBS_RECORD_LENGTH', 6000)
    if not isinstance(m, int) or m < 0:
        raise GenError('MAX_VBS_RECORD_LENGTH is not a natural')
    out.append(f'Definition max_vbs_record_length : N := {m}%N.')
    out.append('')
    ode = cfg.get('output_data_elements', [])
    out.append('Definition packaged_output_elements : list (list N) := [\n' +
               ';\n'.join('  ' + coq_str(s) for s in ode) + '\n].')
    out.append('')
    pt = cfg.get('mci_parameter_tables', {})
    trows = []
    for tname, fields in pt.items():
        frows = []
        for fname, se in fields.items():
            if set(se.keys()) != {'start', 'end'}:
                raise GenError(f'parameter field {tname}.{fname} is not start/end')
            frows.append(f'    ({coq_str(fname)}, ({coq_nat(se["start"])}, {coq_nat(se["end"])}))')
        trows.append(f'  ({coq_str(tname)}, [\n' + ';\n'.join(frows) + '\n  ])')
    out.append('Definition packaged_param_tables : list (list N * list (list N * (nat * nat))) := [\n' +
               ';\n'.join(trows) + '\n].')
    out.append('')
    # the DE43 regex group names (only their prefix is assumed by the theorems)
    import re
    names = []
    for k, v in bc.items():
        if isinstance(v, dict) and v.get('field_processor') == 'DE43' and v.get('field_processor_config'):
            try:
                names += list(re.compile(v['field_processor_config']).groupindex.keys())
            except re.error as ex:
                raise GenError(f'DE43 regex does not compile: {ex}')
    out.append('Definition packaged_de43_groups : list (list N) := [' + '; '.join(coq_str(n) for n in names) + '].')
    return '\n'.join(out) + '\n'


def decode_table(codec):
    tbl = []
    for b in range(256):
        try:
            s = bytes([b]).decode(codec)
        except UnicodeDecodeError:
            tbl.append(None)
            continue
        if len(s) != 1 or ord(s) > 0xFFFF:
            raise GenError(f'{codec}: byte {b} does not decode to one BMP character')
        tbl.append(ord(s))
    return tbl


def gen_codec():
    out = ['(* GENERATED from the running CPython codecs by harness/gen_coq.py — do not edit *)',
           'From Coq Require Import List NArith.', 'Import ListNotations.', 'Open Scope N_scope.', '']
    names = []
    for c in CODECS:
        tbl = decode_table(c)
        name = 'tbl_' + c
        names.append((c, name))
        cells = '; '.join('None' if x is None else f'Some {x}' for x in tbl)
        out.append(f'Definition {name} : list (option N) := [{cells}].')
    out.append('')
    out.append('Definition codec_tables : list (list N * list (option N)) := [\n' +
               ';\n'.join(f'  ({coq_str(c)}, {n})' for c, n in names) + '\n].')
    out.append('Definition ascii_family : list (list N) := [' + '; '.join(coq_str(c) for c in ASCII_CODECS) + '].')
    out.append('Definition ebcdic_family : list (list N) := [' + '; '.join(coq_str(c) for c in EBCDIC_CODECS) + '].')
    return '\n'.join(out) + '\n'


def reachable_codepoints():
    cps = set(range(256))
    for c in CODECS:
        cps.update(x for x in decode_table(c) if x is not None)
    return sorted(cps)


def gen_unicode():
    cps = reachable_codepoints()
    out = ['(* GENERATED from the running CPython unicodedata by harness/gen_coq.py — do not edit *)',
           '(* facts about exactly the code points reachable through the supported codecs (and U+0000..U+00FF) *)',
           'From Coq Require Import List NArith.', 'Import ListNotations.', 'Open Scope N_scope.', '']
    out.append('Definition uni_reachable : list N := [' + '; '.join(map(str, cps)) + '].')
    out.append('Definition uni_space : list N := [' + '; '.join(str(c) for c in cps if chr(c).isspace()) + '].')
    # the characters int() strips as whitespace are NOT str.isspace(): CPython maps only non-ASCII Unicode spaces to ' ' and
    # then skips C-locale ASCII whitespace, so U+001C..U+001F (isspace() is True) make int() fail.  Taken from int() itself.
    def int_strips(c):
        ch = chr(c)
        if ch in '+-_' or unicodedata.decimal(ch, None) is not None:
            return False
        try:
            return int(ch + '7') == 7 and int('7' + ch) == 7
        except ValueError:
            return False
    out.append('Definition uni_intspace : list N := [' + '; '.join(str(c) for c in cps if int_strips(c)) + '].')
    dec = [(c, unicodedata.decimal(chr(c), None)) for c in cps]
    out.append('Definition uni_decimal : list (N * N) := [' +
               '; '.join(f'({c}, {d})' for c, d in dec if d is not None) + '].')
    out.append('Definition uni_isdigit : list N := [' + '; '.join(str(c) for c in cps if chr(c).isdigit()) + '].')
    out.append('Definition uni_isnumeric : list N := [' + '; '.join(str(c) for c in cps if chr(c).isnumeric()) + '].')
    out.append('Definition uni_isalpha : list N := [' + '; '.join(str(c) for c in cps if chr(c).isalpha()) + '].')
    return '\n'.join(out) + '\n'


def write_if_changed(path, text):
    try:
        if open(path, encoding='utf8').read() == text:
            return False
    except FileNotFoundError:
        pass
    tmp = path + '.tmp'
    with open(tmp, 'w', encoding='utf8') as f:
        f.write(text)
    os.replace(tmp, path)
    return True


def main(repo, outdir):
    os.makedirs(outdir, exist_ok=True)
    changed = []
    cfg = load_config(repo)
    for name, text in (('GenConfig.v', gen_config(cfg)), ('GenCodec.v', gen_codec()), ('GenUnicode.v', gen_unicode())):
        if write_if_changed(os.path.join(outdir, name), text):
            changed.append(name)
    return changed


if __name__ == '__main__':
    repo = sys.argv[1] if len(sys.argv) > 1 else '/repo'
    outdir = sys.argv[2] if len(sys.argv) > 2 else os.path.join(os.path.dirname(os.path.abspath(__file__)), '..', 'coq', 'theories', 'gen')
    try:
        ch = main(repo, outdir)
    except GenError as ex:
        print(f'GENERR {ex}')
        sys.exit(2)
    print('changed: ' + (' '.join(ch) if ch else 'none'))
