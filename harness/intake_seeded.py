#!/usr/bin/env python3
"""intake_seeded.py <name> [<srcdir>] — confirm a candidate mutation independently and store it as /verif/seeded/<name>/.

<srcdir> (default /tmp/mut/<name>) holds patch.diff, demo.py, notes.json written by a sub-agent that saw only the property text.
Confirmation happens in a fresh scratch worktree of /repo (removed afterwards):
  - the unedited test suite passes with the patch;
  - demo.py exits 0 on the pristine tree and non-zero with the patch.
Then the patch is applied to /repo, the target property's quick check is run, and the patch is undone.  meta.json records all of it."""
import json
import os
import shutil
import subprocess
import sys
import tempfile

VERIF = os.path.dirname(os.path.dirname(os.path.abspath(__file__)))
REPO = '/repo'
PY = '/venv/bin/python'


def sh(cmd, **kw):
    return subprocess.run(cmd, stdout=subprocess.PIPE, stderr=subprocess.STDOUT, text=True, **kw)


def main():
    # evidence and replays of runs against a MODIFIED /repo must not overwrite the committed ones
    os.environ.setdefault('VERIF_EVIDENCE_DIR', '/tmp/cuv-scratch-evidence')
    os.environ.setdefault('VERIF_REPLAY_DIR', '/tmp/cuv-scratch-replays')
    name = sys.argv[1]
    src = sys.argv[2] if len(sys.argv) > 2 else os.path.join('/tmp/mut', name)
    notes = json.load(open(os.path.join(src, 'notes.json')))
    prop = notes['property']
    patch = os.path.join(src, 'patch.diff')
    demo = os.path.join(src, 'demo.py')
    wt = tempfile.mkdtemp(prefix='cuv-wt-')
    os.rmdir(wt)
    assert sh(['git', '-C', REPO, 'worktree', 'add', '-q', '--detach', wt, 'HEAD']).returncode == 0
    try:
        env = dict(os.environ, PYTHONPATH=wt, PYTHONDONTWRITEBYTECODE='1', PYTHONHASHSEED='0')
        d0 = sh([PY, '-B', demo], cwd=wt, env=env, timeout=600)
        r = sh(['git', '-C', wt, 'apply', patch])
        if r.returncode != 0:
            print('patch does not apply:', r.stdout)
            return 1
        touched = sh(['git', '-C', wt, 'diff', '--name-only']).stdout.split()
        t = sh([PY, '-B', '-m', 'pytest', '-q', '-p', 'no:cacheprovider', '-x'], cwd=wt, env=env, timeout=1800)
        d1 = sh([PY, '-B', demo], cwd=wt, env=env, timeout=600)
        tests_ok = t.returncode == 0
        last = t.stdout.strip().splitlines()[-1] if t.stdout.strip() else ''
    finally:
        sh(['git', '-C', REPO, 'worktree', 'remove', '--force', wt])
        shutil.rmtree(wt, ignore_errors=True)
    print('tests with patch:', last, '| demo pristine exit', d0.returncode, '| demo patched exit', d1.returncode, '| touched', touched)
    if not tests_ok or d0.returncode != 0 or d1.returncode == 0 or any(not f.startswith('cardutil/') for f in touched):
        print('REJECTED: not a confirmed mutation')
        if d0.returncode != 0:
            print(d0.stdout[-1500:])
        return 1
    # run the target check against a scratch copy of /repo with the patch applied (VERIF_REPO): /repo is not touched
    sys.path.insert(0, os.path.dirname(os.path.abspath(__file__)))
    from scratch_repo import patched_copy, check_env
    with patched_copy(patch) as root:
        out = sh([os.path.join(VERIF, 'check'), prop, '--tier', 'quick'], cwd=VERIF, env=check_env(root)).stdout
    viol = [l for l in out.splitlines() if l.startswith('VIOLATION')]
    summ = [l for l in out.splitlines() if l.startswith(prop + ' tier=')]
    dst = os.path.join(VERIF, 'seeded', name)
    os.makedirs(dst, exist_ok=True)
    shutil.copy(patch, os.path.join(dst, 'patch.diff'))
    shutil.copy(demo, os.path.join(dst, 'demo.py'))
    meta = {'property': prop, 'summary': notes.get('summary'), 'needs': notes.get('needs'),
            'tests_pass': True, 'demo_fails_with_patch': True, 'demo_passes_without': True,
            'verified_by_lead': {'tests_with_patch': last, 'demo_exit_with_patch': d1.returncode, 'demo_exit_without': d0.returncode},
            'ran': './check %s --tier quick against a scratch copy of /repo with the patch applied (VERIF_REPO)' % prop,
            'caught_by_quick_check': bool(viol), 'check_summary': summ[0] if summ else '',
            'violation_lines': [' '.join(l.split()[:2]) for l in viol[:3]]}
    json.dump(meta, open(os.path.join(dst, 'meta.json'), 'w'), indent=1)
    print('CAUGHT' if viol else 'MISSED', summ[0] if summ else out[-500:])
    return 0


if __name__ == '__main__':
    sys.exit(main())
