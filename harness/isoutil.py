"""isoutil.py — ISO8583 helpers for the harness: protocol serialisation, configurations, message generators."""
import datetime
import decimal
import rx
import re

from util import hs, unhs

ASCII_CODECS = ['ascii', 'latin_1', 'cp1252', 'cp437', 'iso8859_15']
EBCDIC_CODECS = ['cp037', 'cp500', 'cp1140', 'cp273', 'cp1026', 'cp875', 'cp424']
CODECS = ASCII_CODECS + EBCDIC_CODECS
DE_RE = re.compile(r'^DE(0|[1-9][0-9]*)$')


# ---------------------------------------------------------------- dict <-> protocol text
def key_text(k):
    if k == 'MTI':
        return 'M'
    if k == 'ICC_DATA':
        return 'I'
    m = DE_RE.match(k)
    if m and k.isascii():
        return 'D' + m.group(1)
    if k.startswith('PDS'):
        return 'P' + hs(k[3:])
    if k.startswith('TAG'):
        return 'T' + hs(k[3:])
    return 'O' + hs(k)


def key_of_text(t):
    c, r = t[0], t[1:]
    return {'M': lambda: 'MTI', 'I': lambda: 'ICC_DATA', 'D': lambda: 'DE' + r, 'P': lambda: 'PDS' + unhs(r),
            'T': lambda: 'TAG' + unhs(r), 'O': lambda: unhs(r)}[c]()


def val_text(v):
    if v is None:
        return 'n'                  # an optional regex group that took no part in the match (model: Unmodelled pattern)
    if isinstance(v, bool):
        raise TypeError('bool value')
    if isinstance(v, str):
        return 's' + hs(v)
    if isinstance(v, int):
        return 'i' + str(v)
    if isinstance(v, (bytes, bytearray)):
        return 'b' + (bytes(v).hex() or '-')
    if isinstance(v, datetime.datetime):
        if v.microsecond or v.tzinfo is not None:
            raise TypeError('datetime with microseconds / tz')
        return 'd%d.%d.%d.%d.%d.%d' % (v.year, v.month, v.day, v.hour, v.minute, v.second)
    if isinstance(v, decimal.Decimal):
        return 'c' + hs(str(v))     # the model carries a decimal by its text (model/Dec.v); the driver reads 'c' as that text
    raise TypeError('unsupported value type %s' % type(v).__name__)


def val_of_text(t):
    c, r = t[0], t[1:]
    if c == 'n':
        return None
    if c == 's':
        return unhs(r)
    if c == 'i':
        return int(r)
    if c == 'b':
        return b'' if r == '-' else bytes.fromhex(r)
    if c == 'd':
        return datetime.datetime(*map(int, r.split('.')))
    if c == 'c':
        return decimal.Decimal(unhs(r))
    raise ValueError(t)


def dict_text(d):
    if not d:
        return '-'
    return ';'.join('%s=%s' % (key_text(k), val_text(v)) for k, v in d.items())


def dict_of_text(t):
    if t == '-':
        return {}
    out = {}
    for e in t.split(';'):
        k, v = e.split('=')
        out[key_of_text(k)] = val_of_text(v)
    return out


def canon_entries(t, drop_other=False, other_values=True):
    """protocol dict text -> {keytext: valtext} (order-insensitive comparison, as Python's dict ==).
    other_values=False keeps the derived DE43_* KEYS but not their values: the projection of the properties that speak
    only of which extra keys may appear (the values are C02's business)."""
    if t == '-':
        return {}
    out = {}
    for e in t.split(';'):
        k, v = e.split('=')
        if k.startswith('O'):
            if drop_other:
                continue
            if not other_values:
                v = ''
        if v[:1] == 'c':
            # a decimal.Decimal: the model carries it BY ITS TEXT (model/Dec.v: VStr (str(d))), the driver prints that text as
            # a str; the comparison with the model is on the text (the Decimal TYPE of the value is the oracles' business)
            v = 's' + v[1:]
        out[k] = v
    return out


# ---------------------------------------------------------------- configuration
FT = {'FIXED': 'F', 'LLVAR': 'L2', 'LLLVAR': 'L3'}
PT = {'int': 'I', 'long': 'I', 'decimal': 'D', 'datetime': 'T'}
PR = {'PAN': 'P', 'PAN-PREFIX': 'X', 'ICC': 'I', 'PDS': 'S', 'DE43': '4'}


def cfg_text(cfg):
    if cfg is None:
        return 'packaged'
    rows = []
    for k, c in cfg.items():
        if not c:
            continue
        fl = c.get('field_length')
        rows.append(':'.join([str(int(k)), FT.get(c['field_type'], 'O'), 'N' if fl is None else str(fl),
                              PT.get(c.get('field_python_type'), 'S'), hs(c.get('field_date_format', '%y%m%d')),
                              PR.get(c.get('field_processor'), 'N'),
                              rx.proto_cfg(c.get('field_processor_config')) if c.get('field_processor') == 'DE43' else '0']))
    return ';'.join(rows) if rows else '-'


def packaged():
    from cardutil.config import config
    return config['bit_config']


DE43_REGEX = (r"(?P<DE43_NAME>.+?) *\\(?P<DE43_ADDRESS>.+?) *\\(?P<DE43_SUBURB>.+?) *\\"
              r"(?P<DE43_POSTCODE>.{10})(?P<DE43_STATE>.{3})(?P<DE43_COUNTRY>\S{3})$")
# other splitting patterns a caller might configure: inside the modelled regex fragment (sets, ranges, \d \D \s \S, greedy and
# lazy counted repeats, anchors, plain groups) and, last, outside it (an optional group: the model answers Unmodelled)
DE43_PATTERNS = [DE43_REGEX, DE43_REGEX, DE43_REGEX,
                 r"(?P<DE43_A>[^\\]*)\\(?P<DE43_B>\d{2,4})(?P<DE43_C>[a-cX\s]+)\Z",
                 r"(?P<DE43_X>.*)",
                 r"(?P<DE43_HEAD>\D+?)(?P<DE43_NUM>\d+)(?:-?)(?P<DE43_TAIL>.*?)\s*$",
                 r"^(?P<DE43_NAME>[A-Z ]{1,22}?) {0,3}(?P<DE43_CITY>\S.{0,12})(?P<DE43_CC>[A-Z]{2,3})$",
                 r"(?P<DE43_NAME>.{1,22}?) *(?P<DE43_REST>\S.*)?$"]
DATE_FORMATS = ['%y%m%d', '%y%m%d%H%M%S', '%Y%m%d', '%H%M%S', '%m%d', '%Y%m%d%H%M%S', '%d%m%y']


def gen_config(rng, allbits=False, modelled_only=False, decimals=None):
    """a caller-supplied configuration: random field types, widths, python types and processors"""
    cfg = {}
    bits = list(range(2, 128)) if allbits else sorted(rng.sample(range(2, 128), rng.randrange(3, 40)))
    icc_done = False
    for b in bits:
        r = rng.random()
        c = {'field_name': 'f%d' % b}
        if r < 0.45:
            c['field_type'] = 'FIXED'
            c['field_length'] = rng.choice([1, 2, 3, 4, 6, 8, 12, 15, 24, rng.randrange(1, 40)])
            t = rng.random()
            if t < 0.25:
                c['field_python_type'] = rng.choice(['int', 'long'])
            elif t < 0.4:
                fmt = rng.choice(DATE_FORMATS)
                c['field_python_type'] = 'datetime'
                c['field_date_format'] = fmt
                c['field_length'] = sum(4 if d == 'Y' else 2 for d in fmt.replace('%', ''))
        else:
            c['field_type'] = 'LLVAR' if r < 0.75 else 'LLLVAR'
            c['field_length'] = 0
            t = rng.random()
            if t < 0.12:
                c['field_processor'] = 'PAN'
            elif t < 0.2:
                c['field_processor'] = 'PAN-PREFIX'
            elif t < 0.3 and c['field_type'] == 'LLLVAR':
                c['field_processor'] = 'PDS'
            elif t < 0.36 and c['field_type'] == 'LLLVAR' and not icc_done:
                c['field_processor'] = 'ICC'
                icc_done = True
            elif t < 0.42:
                c['field_processor'] = 'DE43'
                c['field_processor_config'] = rng.choice(DE43_PATTERNS[:-1] if modelled_only else DE43_PATTERNS)
            elif t < 0.5:
                c['field_python_type'] = 'int'
        if (decimals if decimals is not None else not modelled_only) and c.get('field_python_type') in ('int', 'long') and rng.random() < 0.3:
            # the decimal python type: outside the model (Unmodelled), judged by the independent references only
            c['field_python_type'] = 'decimal'
            if c['field_length'] < 3:
                # (a variable field's nominal length is not enforced, but format(Decimal, '00f') is not a valid format:
                # a decimal element needs a width of at least 1; the generator gives it a real one)
                c['field_length'] = rng.choice([4, 6, 12])
        if 'field_python_type' not in c and rng.random() < 0.3:
            c['field_python_type'] = 'string'          # the documented explicit spelling of the default type
        cfg[str(b)] = c
    return reorder_keys(rng, cfg)


def reorder_keys(rng, cfg):
    """a configuration's keys need not be listed in ascending order (a JSON file written with sorted string keys lists
    '10' before '2'; an entry added later sits last): nothing may depend on the order of the dictionary"""
    r = rng.random()
    if r < 0.55:
        return cfg
    ks = list(cfg)
    if r < 0.7:
        ks.sort()                     # string order
    elif r < 0.8:
        ks.reverse()
    elif r < 0.9 and len(ks) > 1:
        ks.append(ks.pop(rng.randrange(len(ks) - 1)))      # one entry "added later"
    else:
        rng.shuffle(ks)
    return {k: cfg[k] for k in ks}


# ---------------------------------------------------------------- values
def codec_chars(codec):
    out = []
    for b in range(256):
        try:
            out.append(bytes([b]).decode(codec))
        except UnicodeDecodeError:
            pass
    return out


_CH = {}


def chars_of(codec):
    if codec not in _CH:
        _CH[codec] = codec_chars(codec)
    return _CH[codec]


def rand_text(rng, codec, n):
    mode = rng.random()
    if mode < 0.35:
        return ''.join(rng.choice('0123456789') for _ in range(n))
    if mode < 0.7:
        return ''.join(rng.choice('ABCDEFGHIJKLMNOPQRSTUVWXYZ abcdefghijklmnopqrstuvwxyz0123456789\\/-.,') for _ in range(n))
    cs = chars_of(codec)
    return ''.join(rng.choice(cs) for _ in range(n))


def pick_len(rng, lo, hi):
    return rng.choice([lo, min(hi, lo + 1), max(lo, hi - 1), hi, rng.randint(lo, hi), rng.randint(lo, min(hi, lo + 30))])


def rand_date(rng, fmt):
    has = set(fmt.replace('%', ''))
    if {'y', 'm', 'd', 'H'} <= has and rng.random() < 0.06:
        # wall-clock values that do not exist / exist twice in a daylight-saving zone (US rules): values are naive, so
        # they must come back as written
        y, mo, d, h = rng.choice([(2023, 3, 12, 2), (2024, 3, 10, 2), (2023, 11, 5, 1), (2021, 3, 14, 2)])
        return datetime.datetime(y, mo, d, h, rng.randint(0, 59) if 'M' in has else 0, rng.randint(0, 59) if 'S' in has else 0)
    if 'y' in has:
        y = rng.choice([1969, 1970, 1999, 2000, 2024, 2067, 2068, rng.randint(1969, 2068)])
    elif 'Y' in has:
        y = rng.choice([1000, 1900, 1969, 2000, 2068, 2069, 9999, rng.randint(1000, 9999)])
    else:
        y = 1900
    mo = rng.choice([1, 2, 12, rng.randint(1, 12)]) if 'm' in has else 1
    import calendar
    dmax = calendar.monthrange(y, mo)[1]
    d = rng.choice([1, dmax, rng.randint(1, dmax)]) if 'd' in has else 1
    return datetime.datetime(y, mo, d, rng.choice([0, 23, rng.randint(0, 23)]) if 'H' in has else 0,
                             rng.choice([0, 59, rng.randint(0, 59)]) if 'M' in has else 0,
                             rng.choice([0, 59, rng.randint(0, 59)]) if 'S' in has else 0)


def rand_tlv(rng, maxlen):
    out = b''
    while True:
        r = rng.random()
        if r < 0.5:
            tag = bytes([rng.choice([x for x in range(1, 256) if x not in (0x9f, 0x5f)])])
        else:
            tag = bytes([rng.choice([0x9f, 0x5f]), rng.randrange(256)])
        n = rng.choice([0, 1, 2, 8, rng.randrange(0, 40)])
        item = tag + bytes([n]) + bytes(rng.randrange(256) for _ in range(n))
        if len(out) + len(item) > maxlen:
            break
        out += item
        if rng.random() < 0.3:
            break
    out = out or b'\x82\x02\x00\x00'
    if rng.random() < 0.25 and len(out) < maxlen:
        # low-values filler behind the last tag (chip data padded to a fixed size): the walker stops at the first 00 tag
        out += b'\x00' * rng.choice([1, 2, maxlen - len(out), rng.randint(1, maxlen - len(out))])
    return out


def rand_de43(rng, codec, vmax):
    """a merchant field: mostly of the documented shape name\\address\\suburb\\postcode(10)state(3)country(3), with the
    variations that decide how it is split (blanks before a separator, separators inside a part, short or blank parts,
    white space in the country, control characters, a trailing newline, parts missing)"""
    def part(maxn):
        n = rng.choice([1, 1, 2, 5, 12, rng.randint(1, maxn)])
        alpha = rng.choice(['ABCDEFGHIJKLMNOPQRSTUVWXYZ abcdefghijklmnopqrstuvwxyz0123456789.,-/&', 'AB \\', ' ', 'A '])
        t = ''.join(rng.choice(alpha) for _ in range(n))
        if rng.random() < 0.3:
            t += ' ' * rng.randint(1, 4)
        return t
    for _ in range(20):
        pc = ''.join(rng.choice('0123456789 ') for _ in range(10))
        r0 = rng.random()
        if r0 < 0.12:
            pc = ' ' * 10                                # no postcode at all (e.g. Hong Kong)
        elif r0 < 0.3:
            pc = pc[:rng.randint(0, 9)].ljust(10)
        elif r0 < 0.36:
            pc = pc[:rng.randint(1, 9)].rjust(10)        # blanks in front
        st = ''.join(rng.choice('ABCDEFGHIJKLMNOPQRSTUVWXYZ ') for _ in range(3))
        co = ''.join(rng.choice('ABCDEFGHIJKLMNOPQRSTUVWXYZ' + (' \t' if rng.random() < 0.15 else '')) for _ in range(3))
        s = part(22) + '\\' + part(30) + '\\' + part(13) + '\\' + pc + st + co
        r = rng.random()
        if r < 0.06:
            s += '\n'
        elif r < 0.1:
            s = s.replace('\\', '', 1)                  # only two separators
        elif r < 0.14:
            s = s[:-rng.randint(1, 3)]                   # tail too short
        elif r < 0.18:
            s += rng.choice(['X', ' ', '\\'])            # something follows the country
        elif r < 0.22:
            i = rng.randrange(len(s))
            s = s[:i] + rng.choice(['\n', '\x1c', '\x85', '\xa0', '\t']) + s[i + 1:]
        try:
            s.encode(codec)
        except UnicodeEncodeError:
            continue
        if 1 <= len(s) <= vmax:
            return s
    return 'A\\B\\C\\1234567890STACOU'


def pds_sub(tag, v):
    return '%04d%03d%s' % (tag, len(v), v)


def rand_pds_string(rng, codec, maxlen):
    out = ''
    for _ in range(rng.randrange(1, 5)):
        s = pds_sub(rng.randrange(0, 10000), rand_text(rng, codec, rng.choice([0, 1, 3, 20])))
        if len(out) + len(s) <= maxlen:
            out += s
    return out or pds_sub(1, 'x')


def rand_value(rng, c, codec):
    """a well-formed value for an element with configuration c"""
    ft = c['field_type']
    pt = c.get('field_python_type')
    proc = c.get('field_processor')
    vmax = 99 if ft == 'LLVAR' else 999
    if proc == 'ICC':
        return rand_tlv(rng, min(vmax, rng.choice([20, 255, 999])))
    if pt in ('int', 'long'):
        w = c['field_length'] if ft == 'FIXED' else rng.choice([1, 5, 18, min(vmax, 60)])
        return rng.choice([0, 1, 10 ** w - 1, rng.randrange(0, 10 ** w)])
    if pt == 'datetime':
        return rand_date(rng, c.get('field_date_format', '%y%m%d'))
    if pt == 'decimal':
        return rand_decimal(rng, c['field_length'] if ft == 'FIXED' else rng.choice([3, c['field_length'], 20, min(vmax, 40)]))
    if ft == 'FIXED':
        return rand_text(rng, codec, c['field_length'])
    if proc == 'PDS':
        return rand_pds_string(rng, codec, vmax)
    if proc == 'DE43' and ft != 'FIXED' and rng.random() < 0.8:
        return rand_de43(rng, codec, vmax)
    if proc in ('PAN', 'PAN-PREFIX'):
        n = rng.choice([10, 13, 16, 19, rng.randint(10, 40), rng.randint(1, 9)])
        return ''.join(rng.choice('0123456789') for _ in range(n))
    return rand_text(rng, codec, pick_len(rng, 1, vmax))


def rand_decimal(rng, w, exact=False):
    """a finite decimal whose plain fixed-point text (sign, digits, point) has at most w characters"""
    s = rng.choice([0, 0, 1, 2, 3, 6])
    if s + 2 > w:
        s = 0
    neg = rng.random() < 0.25 and w >= s + (3 if s else 2)
    room = w - (s + 1 if s else 0) - (1 if neg else 0)
    nint = rng.choice([1, room, rng.randint(1, room)])
    ip = ''.join(rng.choice('0123456789') for _ in range(nint))
    if rng.random() < 0.5:
        ip = str(int(ip))                       # no leading zeros
    fp = ''.join(rng.choice('0123456789') for _ in range(s))
    return decimal.Decimal(('-' if neg else '') + ip + ('.' + fp if s else ''))


def ref_dec_text(d, w):
    """format(d, '0<w>f') for a finite Decimal, written from the number's sign / digits / exponent: plain fixed-point
    notation with exactly the number's own decimal places, zeros between the sign and the digits up to width w"""
    sign, digits, exp = d.as_tuple()
    ds = ''.join(str(x) for x in digits)
    if exp >= 0:
        ip, fp = ds + '0' * exp, ''
    else:
        ds = ds.rjust(-exp + 1, '0')
        ip, fp = ds[:exp], ds[exp:]
    ip = ip.lstrip('0') or '0'
    body = ip + ('.' + fp if fp else '')
    sg = '-' if sign else ''
    return sg + body.rjust(max(0, w - len(sg)), '0')


def rand_message(rng, cfg, codec, with_pds=None, bits=None, nbits=None):
    """a well-formed message for cfg (a bit_config dict)"""
    allbits = sorted(int(k) for k in cfg if 2 <= int(k) <= 127 and cfg[k])
    carriers = [b for b in allbits if cfg[str(b)].get('field_processor') == 'PDS']
    if bits is None:
        k = nbits if nbits is not None else rng.choice([0, 1, 2, 5, 10, len(allbits)])
        bits = sorted(rng.sample(allbits, min(k, len(allbits))))
    if with_pds is None:
        with_pds = bool(carriers) and rng.random() < 0.35
    m = {'MTI': ''.join(rng.choice('0123456789') for _ in range(4))}
    for b in bits:
        if with_pds and b in carriers:
            continue
        m['DE%d' % b] = rand_value(rng, cfg[str(b)], codec)
    if with_pds and carriers:
        tags = sorted(rng.sample(range(0, 10000), rng.choice([1, 2, 3, 8, 20])))
        subs = []
        for t in tags:
            n = rng.choice([0, 1, 3, 10, 50, rng.randrange(0, 300), rng.randrange(0, 993)])
            subs.append((t, rand_text(rng, codec, n)))
        while subs and greedy_chunks([7 + len(v) for _, v in subs]) > len(carriers):
            subs.pop()
        for t, v in subs:
            m['PDS%04d' % t] = v
    return m


def sized_message(rng, size):
    """a message for the PACKAGED configuration whose encoding is exactly `size` bytes (24 <= size <= 4028), in every codec:
    MTI, bitmap and plain LLLVAR text elements (72, 111, 127, 54) of letters and digits"""
    rest = size - 20
    m = {'MTI': ''.join(rng.choice('0123456789') for _ in range(4))}
    bits = [72, 111, 127, 54]
    if not 4 <= rest <= 4 * 1002:
        raise ValueError(size)
    k = max(1, (rest + 1001) // 1002)
    if k < 4 and rest >= 4 * (k + 1) and rng.random() < 0.5:
        k += 1
    sizes = [4] * k
    left = rest - 4 * k
    for i in range(k):
        add = min(998, left) if i == k - 1 else min(998, left, rng.randint(0, min(998, left)))
        sizes[i] += add
        left -= add
    i = 0
    while left > 0:                      # spread what is still left over the elements that have room
        add = min(1002 - sizes[i], left)
        sizes[i] += add
        left -= add
        i += 1
    for b, n in zip(bits, sizes):
        m['DE%d' % b] = ''.join(rng.choice('ABCDEFGHIJKLMNOPQRSTUVWXYZ0123456789') for _ in range(n - 3))
    return m


def rand_message_fit(rng, cfg, codec, limit=5900, **kw):
    """a well-formed message whose encoding fits one VBS record (MAX_VBS_RECORD_LENGTH)"""
    for _ in range(50):
        m = rand_message(rng, cfg, codec, **kw)
        try:
            if len(ref_wire(m, cfg, codec, False)) <= limit:
                return m
        except (Refused, UnicodeEncodeError):
            pass
    return {'MTI': '1240', 'DE2': '4444555566667777'}


def greedy_chunks(sizes, cap=999):
    """number of carriers an order-preserving greedy packing of sub-elements of these sizes needs"""
    n, cur = 0, 0
    for z in sizes:
        if cur + z > cap:
            n += 1
            cur = 0
        cur += z
    return n + (1 if cur else 0)


def ref_de43(s, pattern):
    """Independent reading of a merchant field under the PACKAGED pattern, written from its documentation without a regex
    engine:  name \\ address \\ suburb \\ postcode(10) state(3) country(3, no white space), the three text parts
    non-empty, as short as possible and without their trailing blanks, nothing may follow (a final newline is tolerated).
    Returns the DE43_* dict, {} when the field does not have that shape, None for any other pattern (no independent reading)."""
    if pattern != DE43_REGEX:
        return None
    e = len(s) - 1 if s.endswith('\n') else len(s)
    if e < 16 + 6 or '\n' in s[:e]:
        return {}
    tail = s[e - 16:e]
    if any(ch.isspace() for ch in tail[13:]):
        return {}
    head = s[:e - 16]
    b3 = len(head) - 1
    if head[b3] != '\\':
        return {}

    def part(a, b):          # head[a:b] without trailing blanks, at least one character
        t = head[a:b].rstrip(' ')
        return t if t else head[a:a + 1]
    for b1 in range(1, b3):
        if head[b1] != '\\':
            continue
        for b2 in range(b1 + 2, b3 - 1):
            if head[b2] == '\\':
                return {'DE43_NAME': part(0, b1), 'DE43_ADDRESS': part(b1 + 1, b2), 'DE43_SUBURB': part(b2 + 1, b3),
                        'DE43_POSTCODE': tail[:10].rstrip(), 'DE43_STATE': tail[10:13], 'DE43_COUNTRY': tail[13:16]}
    return {}


SAME_WIDTH = {6: ['%y%m%d', '%d%m%y', '%m%d%y', '%H%M%S'], 4: ['%m%d', '%d%m', '%H%M', '%M%S'], 8: ['%Y%m%d', '%d%m%Y']}


CONFIG_KEYS = ('field_name', 'field_type', 'field_length', 'field_python_type', 'field_date_format', 'field_processor', 'field_processor_config')


def collision_cases(rng, n):
    """Cases in which the SAME raw text is read under different configurations: datetime elements of equal width but
    different formats carrying identical digits, an int and a text element with those digits too, and - `warm` - further
    calls made BEFORE the case's own call in the same process: the same digits under another format / codec, or another
    configuration presented in the SAME dict object (edited in place, `how: inplace`) or in a short-lived copy that is
    dropped before the next one is made (`how: fresh`: CPython then tends to hand out the same id()).  Anything keyed by
    the raw text or by the identity of the configuration (a memo table, a shared buffer) shows up here; `how: derive` /
    `derive-inplace`: the case's configuration is DERIVED from the one the warm call used - a deep copy of it (or the very
    object) whose per-element dictionaries are edited key by key, as a caller adapting a configuration does - so anything
    the library left behind inside a configuration it was given comes along; the model has no
    state, so it is the reference.  Each case: cfg, codec, hex, msg (protocol text), warm (list of such, with `how`)."""
    out = []
    for i in range(n):
        w = rng.choice([6, 6, 4, 8])
        fmts = SAME_WIDTH[w]
        if w == 8:
            digits = '%02d%02d%02d%02d' % (rng.randint(10, 12), rng.randint(10, 12), rng.randint(10, 12), rng.randint(10, 12))
            # valid as %Y%m%d (year 10xx-12xx) and as %d%m%Y
        else:
            digits = ''.join('%02d' % rng.randint(1, 12) for _ in range(w // 2))
        codec = rng.choice(CODECS)

        def mk(order, with_pds, bits=None):
            bits = sorted(rng.sample(range(2, 128), len(order) + 4)) if bits is None else list(bits)
            cfg, m = {}, {'MTI': '%04d' % rng.randrange(10000)}
            for b, f in zip(bits, order):
                cfg[str(b)] = {'field_name': 'd%d' % b, 'field_type': 'FIXED', 'field_length': w, 'field_python_type': 'datetime', 'field_date_format': f}
                m['DE%d' % b] = datetime.datetime.strptime(digits, f)
            cfg[str(bits[-4])] = {'field_name': 'n', 'field_type': 'FIXED', 'field_length': w, 'field_python_type': 'int'}
            m['DE%d' % bits[-4]] = int(digits)
            cfg[str(bits[-3])] = {'field_name': 't', 'field_type': 'FIXED', 'field_length': w}
            m['DE%d' % bits[-3]] = digits
            # two PDS carriers at positions that differ from configuration to configuration
            for b in bits[-2:]:
                cfg[str(b)] = {'field_name': 'c%d' % b, 'field_type': 'LLLVAR', 'field_length': 0, 'field_processor': 'PDS'}
            if with_pds:
                m['PDS%04d' % rng.randrange(10000)] = digits
                if rng.random() < 0.5:
                    m['PDS%04d' % rng.randrange(10000)] = rand_text(rng, codec, rng.choice([1, 30, 600, 900]))
            return reorder_keys(rng, cfg), m
        cfg, m = mk(rng.sample(fmts, rng.randint(2, len(fmts))), rng.random() < 0.6)
        case = {'cfg': cfg, 'codec': codec, 'hex': rng.random() < 0.5, 'msg': dict_text(m)}
        if i % 3:
            warm = []
            for _ in range(rng.randint(1, 2)):
                if rng.random() < 0.5:
                    # the SAME set of element numbers with the roles dealt differently (carriers, dates, int, text on other
                    # bits): anything keyed by the configuration's key set takes the two for one
                    wbits = sorted(int(k) for k in cfg)
                    rng.shuffle(wbits)
                    n_dates = len(wbits) - 4
                    wcfg, wm = mk(rng.sample(fmts * 2, n_dates) if n_dates <= 2 * len(fmts) else [rng.choice(fmts) for _ in range(n_dates)],
                                  rng.random() < 0.8, bits=wbits)
                    if rng.random() < 0.5:
                        # ... and listed in the same order as the case's configuration: even the sequence of keys agrees
                        wcfg = {k: wcfg[k] for k in cfg}
                else:
                    wcfg, wm = mk(rng.sample(fmts, rng.randint(1, len(fmts))), rng.random() < 0.7)
                warm.append({'cfg': wcfg, 'codec': rng.choice([codec, rng.choice(CODECS)]), 'hex': rng.random() < 0.5, 'msg': dict_text(wm),
                             'how': ['plain', 'inplace', 'fresh', 'derive', 'derive-inplace'][(i // 3 + _) % 5]})
            case['warm'] = warm
        out.append(case)
    return out


def run_warm(case, call):
    """the calls a case wants made before its own; returns the configuration OBJECT to use for the case's own call
    (for `inplace` the very dict the warm calls used, now holding the case's configuration)"""
    import copy
    import gc
    shared = None
    last = None
    for w in case.get('warm', ()):
        how = w.get('how', 'plain')
        if how == 'inplace':
            if shared is None:
                shared = {}
            shared.clear()
            shared.update(copy.deepcopy(w['cfg']))
            c = shared
        elif how == 'fresh':
            c = copy.deepcopy(w['cfg'])
        elif how.startswith('derive'):
            c = copy.deepcopy(w['cfg'])
        else:
            c = w['cfg']
        try:
            call(w, c)
        except Exception:
            pass
        last = (how, c)
        if how == 'fresh':
            del c
            gc.collect()
    if last is not None and last[0].startswith('derive') and case.get('cfg') is not None:
        tgt = copy.deepcopy(case['cfg'])
        c = last[1] if last[0] == 'derive-inplace' else copy.deepcopy(last[1])
        for k in [k for k in c if k not in tgt]:
            del c[k]
        for k, new in tgt.items():
            if isinstance(c.get(k), dict):
                for kk in [kk for kk in c[k] if kk in CONFIG_KEYS and kk not in new]:
                    del c[k][kk]
                c[k].update(new)                # keys the caller knows about; anything else stays where it was
            else:
                c[k] = new
        return {k: c[k] for k in tgt}           # listed in the order of the case's configuration
    if shared is not None and case.get('cfg') is not None:
        shared.clear()
        shared.update(copy.deepcopy(case['cfg']))
        return shared
    if case.get('cfg') is not None and any(w.get('how') == 'fresh' for w in case.get('warm', ())):
        return copy.deepcopy(case['cfg'])
    return case.get('cfg')


def expected_back(cfg, k, v):
    """what decoding must return for an original entry (C01): identity, masked PAN or PAN prefix"""
    m = DE_RE.match(k)
    if m:
        c = cfg.get(m.group(1)) or {}
        if c.get('field_processor') == 'PAN' and isinstance(v, str):
            return v[0:6] + '*' * (len(v) - 10) + v[-4:]
        if c.get('field_processor') == 'PAN-PREFIX' and isinstance(v, str):
            return v[:9]
    return v


def derived_key(cfg, k):
    m = DE_RE.match(k)
    if m and (cfg.get(m.group(1)) or {}).get('field_processor') == 'PDS':
        return True
    return k.startswith('TAG') or k == 'ICC_DATA' or k.startswith('DE43_') or k.startswith('PDS')


# ---------------------------------------------------------------- independent reference codec (from the documentation)
class Refused(Exception):
    pass


def ref_pds_chunks(m):
    """PDS sub-elements in ascending tag order, greedily packed into chunks of at most 999 characters, never split"""
    subs = [pds_sub(int(k[3:]), m[k]) for k in sorted(k for k in m if k.startswith('PDS'))]
    chunks, cur = [], ''
    for s in subs:
        if len(cur) + len(s) > 999:
            chunks.append(cur)
            cur = ''
        cur += s
    if cur:
        chunks.append(cur)
    return chunks


def ref_render(c, v, codec):
    """one element on the wire"""
    pt = c.get('field_python_type')
    if pt in ('int', 'long'):
        v = '%0*d' % (c.get('field_length', 0), int(v))
    elif pt == 'decimal':
        v = ref_dec_text(decimal.Decimal(v), c.get('field_length', 0))
    elif pt == 'datetime':
        v = v.strftime(c.get('field_date_format', '%y%m%d'))
    ft = c['field_type']
    if ft in ('LLVAR', 'LLLVAR'):
        w = 2 if ft == 'LLVAR' else 3
        if len(v) >= 10 ** w:
            raise Refused('length %d does not fit a %d digit prefix' % (len(v), w))
        head = ('%0*d' % (w, len(v))).encode(codec)
        return head + (bytes(v) if isinstance(v, (bytes, bytearray)) else v.encode(codec))
    n = c['field_length']
    if isinstance(v, (bytes, bytearray)):
        return bytes(v[:n])
    return v[:n].ljust(n).encode(codec)


def ref_wire(m, cfg, codec, hexbm):
    """MTI, 128-bit bitmap (bit 1 set, bit n <=> element n present), present elements ascending"""
    m = dict(m)
    carriers = sorted(int(k) for k in cfg if cfg[k] and cfg[k].get('field_processor') == 'PDS')
    chunks = ref_pds_chunks(m)
    if len(chunks) > len(carriers):
        raise Refused('more PDS data than carriers')
    for b, ch in zip(carriers, chunks):
        m['DE%d' % b] = ch
    bits = [False] * 128
    bits[0] = True
    body = b''
    for n in range(2, 128):
        v = m.get('DE%d' % n)
        if v is None or (isinstance(v, (str, bytes)) and len(v) == 0):
            continue
        bits[n - 1] = True
        body += ref_render(cfg[str(n)], v, codec)
    bm = int(''.join('1' if x else '0' for x in bits), 2).to_bytes(16, 'big')
    mti = m['MTI'].encode(codec) if m.get('MTI') else b''
    return mti + (bm.hex().encode('ascii') if hexbm else bm) + body


def ref_convert(c, raw, codec):
    """the value an element's own bytes carry (decode, processor, typed conversion); raises ValueError family when not convertible"""
    proc = c.get('field_processor')
    if proc == 'ICC':
        return raw
    s = raw.decode(codec)
    if proc == 'PAN':
        s = s[0:6] + '*' * (len(s) - 10) + s[-4:]
    elif proc == 'PAN-PREFIX':
        s = s[:9]
    pt = c.get('field_python_type')
    if pt in ('int', 'long'):
        return int(s)
    if pt == 'decimal':
        try:
            return decimal.Decimal(s)
        except decimal.InvalidOperation as ex:
            raise ValueError(str(ex))
    if pt == 'datetime':
        return datetime.datetime.strptime(s, c.get('field_date_format', '%y%m%d'))
    return s


def ref_frames(b, cfg, codec, hexbm, strict):
    """frames (bit, off, plen, dlen) of message b read against cfg, or None when it is not well framed.
    strict: prefixes must be plain ASCII decimal digits; otherwise any numeral python's int() accepts, >= 0."""
    hdr = 36 if hexbm else 20
    if len(b) < hdr:
        return None
    try:
        bm = bytes.fromhex(b[4:36].decode('ascii')) if hexbm else b[4:20]
        mti = b[:4].decode(codec)
        if strict and not (mti.isascii() and mti.isdigit()):
            return None
        int(mti)
    except ValueError:
        return None
    if hexbm and not re.fullmatch(rb'[0-9a-fA-F]{32}', b[4:36]):      # (bytes.fromhex skips blanks: not a bitmap of 32 hex digits)
        return None
    data = b[hdr:]
    off, frames = 0, []
    for n in range(2, 128):
        if not (bm[(n - 1) // 8] >> (7 - (n - 1) % 8)) & 1:
            continue
        c = cfg.get(str(n))
        if not c:
            return None
        w = {'LLVAR': 2, 'LLLVAR': 3}.get(c['field_type'], 0)
        if w:
            try:
                p = data[off:off + w].decode(codec)
                if strict and not (len(p) == w and p.isascii() and p.isdigit()):
                    return None
                ln = int(p)
            except ValueError:
                return None
            if ln < 0:
                return None
        else:
            ln = c['field_length']
        if off + w + ln > len(data):
            return None
        frames.append((n, off, w, ln))
        off += w + ln
    if off != len(data):
        return None
    return mti, data, frames


def ref_loads(b, cfg, codec, hexbm, strict=True):
    """independent reading of a message: dict of MTI/DEn values, or None (not well framed / not convertible)"""
    fr = ref_frames(b, cfg, codec, hexbm, strict)
    if fr is None:
        return None
    mti, data, frames = fr
    out = {'MTI': mti}
    for n, off, w, ln in frames:
        try:
            out['DE%d' % n] = ref_convert(cfg[str(n)], data[off + w:off + w + ln], codec)
        except ValueError:
            return None
    return out


def ref_pds_walk(s):
    """PDSxxxx entries of a carrier value: tag(4) length(3) value, length-driven; None when malformed"""
    out, p = {}, 0
    while p < len(s):
        ln = s[p + 4:p + 7]
        if not (len(ln) == 3 and ln.isascii() and ln.isdigit()) or p + 7 + int(ln) > len(s):
            return None
        out['PDS' + s[p:p + 4]] = s[p + 7:p + 7 + int(ln)]
        p += 7 + int(ln)
    return out


def ref_tlv_walk(b):
    """TAGxxxx entries of an ICC field as the documentation describes them; None when malformed"""
    out, p = {'ICC_DATA': b.hex()}, 0
    while p < len(b):
        tag = b[p:p + 2] if b[p] in (0x9f, 0x5f) else b[p:p + 1]
        p += len(tag)
        if tag.hex() == '00':
            break
        if p >= len(b) or (len(tag) == 1 and tag[0] in (0x9f, 0x5f)):
            return None
        ln = b[p]
        if p + 1 + ln > len(b):
            return None
        out['TAG' + tag.hex().upper()] = b[p + 1:p + 1 + ln].hex()
        p += 1 + ln
    return out


# ---------------------------------------------------------------- structure marks and mutations (C07, C08)
ALPHABET = [0x00, 0x20, 0x2b, 0x2d, 0x30, 0x31, 0x39, 0x40, 0x4e, 0x5f, 0x60, 0x6d, 0x9f, 0xb2, 0xf0, 0xf1, 0xf9, 0xff, 0x61, 0x41]


def hex_bitmap_blanks(rng, b):
    """a message with a hexadecimal bitmap in which whole hex PAIRS are replaced by white space, sign or prefix
    characters (lenient hex parsers skip blanks between pairs, accept 0x / +): the bitmap then no longer has 32 hex digits"""
    out = []
    for fill in (b'  ', b'\t\t', b'\n\n', b' \t', b'0x', b'+1', b'_0', b'  ' * 2):
        o = 4 + 2 * rng.randrange(0, 16 - len(fill) // 2 + 1)
        out.append(b[:o] + fill + b[o + len(fill):])
    out.append(b[:4] + b' ' * 32 + b[36:])
    out.append(b[:4] + b[4:20] + b' ' * 16 + b[36:])
    out.append(b[:4] + b' ' * 16 + b[20:36] + b[36:])
    return out


def alphabet(codec):
    extra = []
    # sign, space, underscore, digits, every whitespace class (C-locale, U+001C..U+001F which are isspace() but which
    # int() refuses, NEL, NBSP), superscript two
    for ch in '-+ _09\t\n\x0b\x0c\r\x1c\x1d\x1e\x1f\x85\xa0\xb2':
        try:
            extra.append(ch.encode(codec)[0])
        except UnicodeEncodeError:
            pass
    return sorted(set(ALPHABET + extra))


def marks(b, cfg, codec, hexbm):
    """offsets of the structural bytes of a well-formed message: (kind, offset) for every byte of the MTI, bitmap,
    each length prefix, each PDS sub-length and each TLV tag/length byte"""
    fr = ref_frames(b, cfg, codec, hexbm, strict=True)
    if fr is None:
        return []
    hdr = 36 if hexbm else 20
    out = [('mti', i) for i in range(4)] + [('bitmap', i) for i in range(4, hdr)]
    _, data, frames = fr
    for n, off, w, ln in frames:
        out += [('prefix', hdr + off + i) for i in range(w)]
        c = cfg[str(n)]
        start = hdr + off + w
        if c.get('field_processor') == 'PDS':
            p = 0
            while p + 7 <= ln:
                out += [('pdslen', start + p + 4 + i) for i in range(3)]
                try:
                    p += 7 + int(data[off + w + p + 4:off + w + p + 7].decode(codec))
                except ValueError:
                    break
        elif c.get('field_processor') == 'ICC':
            p, raw = 0, data[off + w:off + w + ln]
            while p < len(raw):
                tl = 2 if raw[p] in (0x9f, 0x5f) else 1
                out += [('tlv', start + p + i) for i in range(min(tl + 1, len(raw) - p))]
                if p + tl >= len(raw):
                    break
                p += tl + 1 + raw[p + tl]
        elif c.get('field_python_type') in ('int', 'long', 'datetime'):
            out += [('typed', start + i) for i in range(ln)]
    return out


def mutate(rng, b):
    """multi-point mutation: truncate / insert / delete / bit-flip"""
    b = bytearray(b)
    for _ in range(rng.choice([1, 1, 2, 3])):
        op = rng.randrange(5)
        if op == 0 and b:
            del b[rng.randrange(len(b)):]
        elif op == 1:
            p = rng.randrange(len(b) + 1)
            b[p:p] = bytes(rng.randrange(256) for _ in range(rng.choice([1, 2, 3, 8])))
        elif op == 2 and b:
            p = rng.randrange(len(b))
            del b[p:p + rng.choice([1, 1, 2, 5])]
        elif op == 3 and b:
            p = rng.randrange(len(b))
            b[p] ^= 1 << rng.randrange(8)
        elif b:
            p = rng.randrange(len(b))
            b[p] = rng.choice(ALPHABET)
    return bytes(b)
