import os
import sys

sys.path.insert(0, os.path.dirname(os.path.abspath(__file__)))
import engine  # noqa: E402


def main(argv):
    if len(argv) >= 2 and argv[0] == 'replay':
        return engine.run_replay(argv[1])
    if not argv:
        print('usage: check <ID> [--tier quick|thorough] | check replay <file>')
        return 2
    prop_id = argv[0]
    tier = os.environ.get('VERIF_TIER', 'quick')
    if '--tier' in argv:
        tier = argv[argv.index('--tier') + 1]
    if tier not in ('quick', 'thorough'):
        tier = 'quick'
    try:
        seed = int(os.environ.get('VERIF_SEED', '0'))
    except ValueError:
        seed = 0
    return engine.run_check(prop_id, tier, seed)


if __name__ == '__main__':
    sys.exit(main(sys.argv[1:]))
