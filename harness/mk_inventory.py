#!/usr/bin/env python3
"""prints a markdown inventory of the property theorems (names as stated in coq/theories/props/*.v)"""
import os, re
P = os.path.join(os.path.dirname(os.path.dirname(os.path.abspath(__file__))), 'coq', 'theories', 'props')
for f in sorted(os.listdir(P)):
    if not f.endswith('.v'):
        continue
    t = open(os.path.join(P, f)).read()
    names = re.findall(r'^\s*(Theorem|Corollary|Example)\s+([A-Za-z0-9_\']+)', t, flags=re.M)
    th = [n for k, n in names if k != 'Example']
    ex = [n for k, n in names if k == 'Example']
    print('* `props/%s`: %s%s' % (f, ', '.join('`%s`' % n for n in th), ('; examples: ' + ', '.join('`%s`' % n for n in ex)) if ex else ''))
