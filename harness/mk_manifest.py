#!/usr/bin/env python3
"""Regenerates MANIFEST.json from the table below (run by hand when a property's status changes)."""
import json
import os

HERE = os.path.dirname(os.path.abspath(__file__))
VERIF = os.path.dirname(HERE)
TB = ('Coq 8.16.1 kernel + vm_compute for finite table facts; Print Assumptions: closed under the global context; '
      'translator gen_coq.py; hand-written Gallina model tied to /repo by the correspondence run (extraction with ExtrOcamlBasic '
      'only + 15-line OCaml glue); ')
CLAIMS = {
    'C03': ('Theorems for every record list, every record size and content, blocked and unblocked (generic block size): byte-exact '
            'layout of the unblocked file, blocked file = whole trailer-terminated blocks whose payload is that stream + fill, '
            'read(write(rs)) = rs, list/bytes function = class API. Correspondence + direct layout/round-trip oracle on the implementation.',
            TB + 'io.BytesIO behaves as the {data,pos} file-object model; records 1..MAX bytes', 'Coq proof (induction over record list, blocker invariant, stream refinement) + differential correspondence', '6/C03'),
    'C04': ('Invariant proof over every sequence of write calls (any number, any sizes incl. empty, generic block size B>0): finalised '
            'output = documented layout of data ++ fill, whole blocks, trailers, payload = data, fill <= one block; one-shot function = '
            'documented layout; streaming = one-shot (+ optional all-fill block). Correspondence on boundary-biased write histories with position-coded content.',
            TB + 'io.BytesIO as file-object model', 'Coq proof (invariant by induction over write list, fuelled loop lemma) + differential correspondence', '6/C04'),
    'C05': ('Theorems for any input bytes and any sequence of read sizes (0 = no size): reads are successive slices of the payload '
            'stream; blocked reader = unblocked reader on the payload; one-shot unblock inverts block up to fill and accepts exactly '
            'whole blocks with correct trailers. Correspondence + slice oracle on the implementation.',
            TB + 'negative read sizes outside the domain', 'Coq proof (refill-loop fuel lemma, buffer++payload invariant, induction over read list) + differential correspondence', '6/C05'),
    'C09': ('Theorem for every cut position k (not enumerated: universally quantified) of every well-formed VBS / blocked file: the reader '
            'returns exactly the records whose frames lie in the surviving payload and then ends or raises the data error. '
            'Correspondence over cut offsets around every structural boundary.',
            TB + 'IPM-level truncation is the composition with C06/C10', 'Coq proof (induction over record list with generalised cut, payload_firstn lemma) + differential correspondence', '6/C09'),
    'C11': ('Theorem for every non-empty history of close()/exit after any writes: same file as a single close, reads back as the records '
            '(VbsWriter model; blocked and unblocked). Exhaustive bounded histories on BytesIO and real files for VbsWriter and IpmWriter as correspondence/oracle.',
            TB + 'OS files behave as the file-object model (observed on this filesystem only); IpmWriter covered by the oracle run, its theorem composes with the encoder (C06)',
            'Coq proof (idempotent close, induction over finalisation list) + exhaustive bounded history enumeration against the implementation', '6/C11'),
    'C15': ('Luhn arithmetic proved for numbers of every length (check digit valid and unique, validation iff Luhn-valid in both interpreter '
            'modes, every substitution and admissible transposition rejected); model tied to card.py by running both on the same strings in a normal and a python -O worker',
            TB + 'generated Unicode digit table re-proved each run; ASCII digit strings only',
            'Coq proof (induction + vm_compute over the 100 digit pairs) + differential correspondence incl. python -O', '6/C15'),
}
CLAIMS.update({
    'C07': ('Totality theorems: loads on ANY bytes / configuration with field lengths returns a dict, the data error or Unmodelled (oracle-decided '
            'input), never another exception and never out of fuel (fuel = length+1, i.e. linear termination); PDS and TLV walkers total; VBS and IPM '
            'readers total for any file. Fault enumeration against the implementation: every structural byte substituted from a 20+ value alphabet, '
            'multi-point mutations, random bytes, damaged files, CLI tools, each case under a watchdog.',
            TB + 'strptime/re/Decimal total and failing only with the caught exception classes (oracle assumption, exercised by the run); real wall-clock time is measured by the watchdog, not proved',
            'Coq proof (case analysis over the result monad, fuel lemmas by induction) + fault enumeration with watchdog', '6/C07'),
    'C08': ('Soundness theorem for every accepted byte string: frames for exactly the flagged bits tile the data, each has its declared non-negative length, each '
            'value is the conversion of its own bytes; completeness theorem: every message well framed with convertible values and walkable sub-structure is accepted. '
            'Correspondence + independent strict reference decoder / frame recomputation on mutations near the valid language.',
            TB + 'DE43 splitting patterns outside the modelled regex fragment are Unmodelled (translator harness/rx.py via CPython re._parser)', 'Coq proof (monotone pointer, induction over the bit range) + differential correspondence + independent reference decoder', '6/C08'),
    'C12': ('Theorems for every PDS set (any permutation of keys in the dict): chunks are the sub-elements in ascending tag order, 1..999 chars, none split; greedy packing is '
            'optimal among all order-preserving unsplit partitions; chunk i goes to carrier i; walking any group recovers exactly its entries; packaged carriers = 48,62,123,124,125 '
            '(generated obligation). Boundary sweep against the implementation with an independent frame reader.',
            TB + 'more chunks than carriers raises IndexError in the code (outside the stated domain, observed)', 'Coq proof (sorting uniqueness, packing loop invariant, exchange argument, walk induction) + differential correspondence', '6/C12'),
    'C16': ('mask: theorem for every string of >= 10 characters and every mask character. Decoding: the result dict is the ordered merge of per-frame contributions and a PAN / PAN-PREFIX '
            'frame contributes exactly one entry, its masked value / first nine characters (so the clear value reaches the dict nowhere). Correspondence + search of every returned string for the clear PAN.',
            TB + 'exceptions carry raw bytes as context data (not the returned dictionary)', 'Coq proof (list algebra; relational frame decomposition of loads) + differential correspondence', '6/C16'),
    'C18': ('Theorems for every layout (19 <= start <= end), index assignment, row list (any bodies), expanded/compressed: the reader returns exactly the requested table\'s rows and columns; '
            'compressed = expanded; refusals; packaged layouts admissible (generated obligation); composed with the VBS file round trip. Correspondence + independent slicing on synthetic files and the CSV tool.',
            TB + 'record decoding per byte (codec table of <= 256 entries)', 'Coq proof (slice arithmetic, filter/map induction) + differential correspondence', '6/C18'),
})
CLAIMS.update({
    'C13': ('Theorems for every PIN of 4..12 digits, every PAN of >= 13 digits, every fill < 2^64: the code\'s string/big-integer construction equals the nibble-level ISO 9564 '
            'spec (formats 0 and 4) and rebuilding returns the PIN; encrypted forms = E(key, clear block) and decrypt back, for any cipher pair with D(E x) = x that preserves length. '
            'Correspondence + independent nibble construction, from-scratch DES/3DES/AES reference checked on FIPS vectors, direct ECB calls, recorded random draws.',
            TB + 'Triple-DES and AES are inside the model (model/Des.v: FIPS 46-3 / SP 800-67; model/Aes.v: FIPS 197; D(E x) = x and length preservation proved for every key and data; props/C13tdes.v, props/C13aes.v instantiate the theorem; the extracted ciphers are compared with the cryptography package on FIPS vectors and random keys each run); the general theorem stays stated for any such cipher pair; freshness of the random source is not modelled (observed: one fill per block object, different fills for separate blocks)',
            'Coq proof (nibble xor = N.lxor bridge, digit/hex lemmas) + differential correspondence + reference ciphers', '6/C13'),
    'C14': ('Theorems: TSP = 11 rightmost PAN digits without check digit + key index + leftmost 4 PIN digits; decimalisation = Visa two-scan spec, always 4 decimal digits, for every 16-nibble '
            'ciphertext; key-part combination = XOR (permutation invariant, duplicates cancel, 32 hex digits); KCV and encrypted zone key as published. Correspondence with cipher stubs driving 0..4 substituted digits.',
            TB + 'Triple-DES inside the model (model/Des.v, props/C14tdes.v instantiate the PVV / KCV / zone-key theorems with it; compared with cryptography each run); the general theorems stay stated for any length-preserving E', 'Coq proof (list/xor algebra, no enumeration of ciphertexts) + differential correspondence + reference DES', '6/C14'),
})
CLAIMS.update({
    'C01': ('Round-trip theorem at full strength: every well-formed configuration (wf_cfgb), every codec table of 256 entries, binary and hex bitmap, every well-formed message (wf_msgb: '
            'any subset of elements, all admissible lengths, ints, dates in the window, ICC TLV, PDS keys packed into carriers, carriers given directly, PAN / PAN-PREFIX processors): '
            'dumps succeeds, loads of the bytes succeeds, every original key returns its (masked / prefixed) value and every other key is a documented derived one. Domain '
            'hypotheses re-proved for the packaged configuration and all 12 generated codec tables on every run. Decimal typed elements are inside that domain (plain fixed-point decimals carried by their canonical text, model/Dec.v; props/C01dec.v: element-level round trip and C01_decimal_message). Correspondence + round-trip oracle on generated messages, each checked to lie in wf_msgb.',
            TB + 'decimal literals with exponent, NaN / Infinity, underscores or non-ASCII digits are Unmodelled; an int given to a decimal element is outside the domain (it comes back as a decimal); non-canonical date strings and DE43 patterns outside the modelled regex fragment are outside the model (Unmodelled / oracle); the DE43 pattern is translated from the configuration on every run',
            'Coq proof (field self-delimitation, induction over the bit range, PDS packing/recovery lemmas, strptime/strftime inverse) + differential correspondence', '6/C01'),
    'C02': ('Encode direction: whenever the model encoder returns, the bytes decompose as MTI ++ bitmap ++ body with the bitmap characterised bit by bit (independent bit_set), 16 bytes or 32 lowercase hex '
            'characters, and the body equal to the declarative element-by-element layout (elem_wire / wire_body; for str numerals on int/date elements through their native value); over-length variable '
            'values are refused with the library error. Decode direction = C08_sound + C01, and for the merchant field the regex theorems of props/C02de43.v (matcher finds a match iff one exists, captures lie inside the value, every DE43_* entry is a named group and a contiguous piece of the value). The implementation is compared byte-for-byte with an independent Python reference encoder and key-for-key with an independent reading (incl. a non-regex reading of the packaged merchant pattern).',
            TB + 'integers in-width and non-negative', 'Coq proof (loop = declarative layout by induction over the bit list) + differential correspondence + independent reference codec', '6/C02'),
    'C06': ('Theorem: any list of well-formed messages that fit a record, VBS or 1014, any well-formed configuration and codec: the written file reads back (End) as decoded records that agree with the messages (C01 clauses); '
            'generic isolation lemma for interleaved instances. Correspondence on files of 1..300 records incl. frames ending around block boundaries; interleaving runs vs solo runs incl. class attributes.',
            TB + 'isolation of the CODE is established by the interleaving runs (the model has no shared component by construction); method-call granularity, single thread',
            'Coq proof (composition of C01, C03, reader refinement) + differential correspondence + interleaving enumeration', '6/C06'),
    'C10': ('Theorems for any number of good records before the bad one, blocked or unblocked, whatever follows: message-level fault -> ErrData k (frame of record k); truncated record -> ErrData k (prefix ++ bytes read); '
            'oversize length -> ErrData k (prefix). Fault enumeration over positions, 8 fault kinds, blocking, encodings and three consumption styles, incl. the printed operator message.',
            TB + 'print_exception_details output is observed by the run only', 'Coq proof (pure parser refinement of the reader, induction over the good records) + fault enumeration', '6/C10'),
    'C17': ('Theorem for every file the writer model produces from >= 1 well-formed message under the packaged configuration: inspection = Valid, encoding family by digit bytes (0x30.. -> latin1, 0xF0.. -> cp037; '
            'family membership of the 12 generated codecs re-proved each run), blocked => reported blocked (any block count), unblocked => reported unblocked unless bytes 1012-1013 are the trailer; invalid classes => Invalid with reason code. '
            'Correspondence on writer files of 1..9 blocks, boundary invalid inputs and arbitrary samples.',
            TB + 'reason texts are not compared, only that a reason is present', 'Coq proof (shape of the first 24 bytes, lay/trailer positions, generated digit tables) + differential correspondence', '6/C17'),
})
CLAIMS.update({
    'C19': ('Theorems for the conversion tools\' model (generic block size, any configured maximum record length): parameter files of ARBITRARY records convert record by record '
            '(same count and order, each decoding under B to what the original decodes to under A) and converting back reproduces the original file byte for byte; IPM files written by '
            'the library from well-formed messages (any well-formed configuration without PAN processors, any pair of compatible total codec tables, any of the four format combinations) '
            'convert to a file that reads under B to exactly the records the input reads to under A (ICC values are the same VBytes) and convert back to the original bytes. '
            'latin_1/cp500/cp037 pairwise compatible and the packaged configuration convertible: generated obligations re-proved each run. Correspondence + direct oracle through the '
            'four tool functions on BytesIO and the command entry points (mci_ipm_encode, mideu convert, mci_ipm_param_encode, paramconv with/without -o) on real temporary files.',
            TB + 'argparse wiring, file opening and printing are exercised by the run only',
            'Coq proof (composition of C01/C02 re-rendering lemmas, C03-C05 framing, codec bijection tables by vm_compute) + differential correspondence through functions and CLI entry points', '6/C19'),
    'C20': ('Theorem for every canonical CSV table (boolean domain canonical_tableb: distinct columns incl. MTI, data elements 2..127 and PDS sub-elements, plain decimal numerals, ISO date-times '
            'in the window, exact-width fixed text, 1..99/999 variable text, empty = absent, fits a record), any well-formed configuration without PAN processors, any codec, blocked or not: '
            'csv_to_ipm succeeds and ipm_to_rows of that file gives back every row cell for cell; value lemmas str(int(s)) = s and str(parse_iso(s)) = s; a date-time cell in any of the five plain ISO 8601 spellings (T separator, no seconds, date alone) is written back as a cell that reads as the same date-time (C20_date_spellings). The same at TEXT level (props/C20text.v): '
            'the csv text of such a table (cells without CR, at most 131072 characters) through mci_csv_to_ipm and mci_ipm_to_csv gives back the same text; csv.reader reads back every table csv.writer wrote. '
            'Correspondence + row oracle through mci_csv_to_ipm / mci_ipm_to_csv as functions and command entry points on real files, at row and at text level.',
            TB + 'CPython csv module is inside the model (model/Csv.v: transcription of _csv.c writer / reader and of DictReader; compared with csv.reader on arbitrary and malformed texts and with csv.writer on arbitrary rows each run); dateutil / fromisoformat only on the five plain ISO 8601 spellings (compared on 11 000 valid and 5 500 invalid values)',
            'Coq proof (row -> native message is wf_msgb, C06 file round trip, numeral/date printing inverses, csv reader/writer round trip) + differential correspondence through functions and CLI entry points', '6/C20'),
})
PENDING = 'not yet claimed: model and theorems for this property are still being built (DESIGN.md section 11); no check registered yet'


def main():
    props = [json.loads(l) for l in open(os.path.join(VERIF, 'properties.jsonl'))]
    m = {
        'version': 1,
        'setup_cmd': './setup.sh',
        'hooks': {'guard': 'CARDUTIL_VERIF',
                  'enable': 'no hooks are needed: every observation point is public API; checks run /repo as it is with PYTHONPATH=/repo',
                  'baseline_off_cmd': 'cd /repo && /venv/bin/python -m pytest -ra -q -p no:cacheprovider --timeout=900 --continue-on-collection-errors',
                  'source_commits': [], 'add_only': True},
        'engines': [
            {'name': 'coq-model', 'path': 'coq/theories', 'serves_properties': sorted(CLAIMS),
             'kind_free_text': 'Gallina model, specs, proofs and property theorems (Coq 8.16.1, stdlib only)'},
            {'name': 'cu_model', 'path': 'ocaml/driver.ml', 'serves_properties': sorted(CLAIMS),
             'kind_free_text': 'extracted model (ExtrOcamlBasic) + line I/O glue, runs the model for the correspondence check'},
            {'name': 'harness', 'path': 'harness', 'serves_properties': sorted(CLAIMS),
             'kind_free_text': 'translator (gen_coq.py), generators, implementation workers, comparer, oracles, evidence'},
        ],
        'checks': [],
        'notes': 'Single entry point ./check <ID> --tier quick|thorough; ./check replay <file>. See DESIGN.md. Genuine defects repaired in '
                 '/repo by fix: commits are listed in known_findings.txt.',
        'not_applicable': [],
    }
    for p in props:
        pid = p['id']
        if pid in CLAIMS:
            text, note, tech, ref = CLAIMS[pid]
            m['checks'].append({'property_id': pid, 'quick_cmd': './check %s --tier quick' % pid,
                                'thorough_cmd': './check %s --tier thorough' % pid, 'evidence_file': 'evidence/%s.json' % pid,
                                'replay_cmd_template': './check replay {path}', 'engine': 'coq-model',
                                'level_claimed': {'category': 'proof', 'text': text, 'design_ref': ref},
                                'level_note': note, 'technique': tech})
        else:
            m['not_applicable'].append({'property_id': pid, 'reason': PENDING})
    with open(os.path.join(VERIF, 'MANIFEST.json'), 'w') as f:
        json.dump(m, f, indent=1)


main()
