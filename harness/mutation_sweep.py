#!/usr/bin/env python3
"""mutation_sweep.py [--files a.py,b.py] [--limit N] [--jobs J] [--out results.jsonl]

Development aid (not a registered check): a systematic operator-mutation sweep of adelosa/cardutil.
For every mutant (comparison flipped, integer constant +-1, + <-> -, and <-> or, `not` dropped, if-condition negated):
  1. a scratch copy of the repository gets the mutated module;
  2. the unedited test suite runs on the copy; mutants the suite kills are of no interest (the checks are for what the
     tests cannot see);
  3. for a test-surviving mutant the quick checks of the properties that speak about the mutated module run against the
     copy (VERIF_REPO=<copy>), stopping at the first VIOLATION.
Output: one JSON line per mutant (file, line, operator, before/after text, killed_by_tests, killed_by = property or null).
Survivors of both are either equivalent mutants or blind spots of the checks: they are to be read by a person.
Nothing is written to /repo; evidence and replays of these runs go to scratch directories."""
import ast
import concurrent.futures
import copy
import json
import os
import shutil
import subprocess
import sys
import tempfile

VERIF = os.path.dirname(os.path.dirname(os.path.abspath(__file__)))
REPO = os.environ.get('VERIF_REPO', '/repo')
PY = '/venv/bin/python'

RELEVANT = {
    'cardutil/iso8583.py': ['C08', 'C01', 'C02', 'C07', 'C12', 'C16', 'C06', 'C10'],
    'cardutil/BitArray.py': ['C08', 'C01', 'C02', 'C17'],
    'cardutil/mciipm.py': ['C05', 'C04', 'C03', 'C09', 'C11', 'C10', 'C17', 'C18', 'C06', 'C07', 'C19'],
    'cardutil/card.py': ['C15', 'C16'],
    'cardutil/pinblock.py': ['C13', 'C14'],
    'cardutil/key.py': ['C14'],
    'cardutil/cli/__init__.py': ['C10', 'C07', 'C20', 'C19'],
    'cardutil/cli/mci_csv_to_ipm.py': ['C20'],
    'cardutil/cli/mci_ipm_to_csv.py': ['C20', 'C07'],
    'cardutil/cli/mci_ipm_encode.py': ['C19'],
    'cardutil/cli/mci_ipm_param_encode.py': ['C19'],
    'cardutil/cli/mci_ipm_param_to_csv.py': ['C18'],
    'cardutil/cli/mideu.py': ['C19', 'C07', 'C20'],
    'cardutil/cli/paramconv.py': ['C19'],
}

CMP = {ast.Lt: ast.LtE, ast.LtE: ast.Lt, ast.Gt: ast.GtE, ast.GtE: ast.Gt, ast.Eq: ast.NotEq, ast.NotEq: ast.Eq,
       ast.In: ast.NotIn, ast.NotIn: ast.In}


class Collector(ast.NodeVisitor):
    """collects (node-id path, operator name, replacement builder) for every mutation site"""
    def __init__(self):
        self.sites = []
        self.skip = 0

    def visit_If(self, node):
        # `if __name__ == '__main__':` blocks are not library behaviour
        t = node.test
        if isinstance(t, ast.Compare) and isinstance(t.left, ast.Name) and t.left.id == '__name__':
            return
        self.sites.append((node, 'negate-if', None))
        self.generic_visit(node)

    def visit_While(self, node):
        self.generic_visit(node)

    def visit_Call(self, node):
        f = node.func
        # logging calls and exception constructors carry messages, not behaviour
        if isinstance(f, ast.Attribute) and isinstance(f.value, ast.Name) and f.value.id in ('LOGGER', 'logging'):
            return
        if isinstance(f, ast.Name) and (f.id.endswith('Error') or f.id == 'print' or f.id == 'print_banner'):
            return
        self.generic_visit(node)

    def visit_Raise(self, node):
        return

    def visit_JoinedStr(self, node):
        return

    def visit_Compare(self, node):
        for i, op in enumerate(node.ops):
            if type(op) in CMP:
                self.sites.append((node, 'cmp:%s->%s' % (type(op).__name__, CMP[type(op)].__name__), i))
        self.generic_visit(node)

    def visit_Constant(self, node):
        if isinstance(node.value, bool) or not isinstance(node.value, int):
            return
        self.sites.append((node, 'const+1', None))
        self.sites.append((node, 'const-1', None))

    def visit_BinOp(self, node):
        if isinstance(node.op, (ast.Add, ast.Sub)):
            # string concatenation with + is left alone when an operand is a string literal / f-string
            if not any(isinstance(x, (ast.JoinedStr,)) or (isinstance(x, ast.Constant) and isinstance(x.value, (str, bytes))) for x in (node.left, node.right)):
                self.sites.append((node, 'binop:%s' % ('+->-' if isinstance(node.op, ast.Add) else '-->+'), None))
        self.generic_visit(node)

    def visit_BoolOp(self, node):
        self.sites.append((node, 'boolop:%s' % ('and->or' if isinstance(node.op, ast.And) else 'or->and'), None))
        self.generic_visit(node)

    def visit_UnaryOp(self, node):
        if isinstance(node.op, ast.Not):
            self.sites.append((node, 'drop-not', None))
        self.generic_visit(node)

    def visit_Expr(self, node):
        # docstrings
        if isinstance(node.value, ast.Constant) and isinstance(node.value.value, str):
            return
        self.generic_visit(node)


def apply(tree, target, op, idx):
    """returns a mutated deep copy of tree"""
    # locate by position in a walk (deep copies keep the walk order)
    order = list(ast.walk(tree))
    k = next(i for i, n in enumerate(order) if n is target)
    new = copy.deepcopy(tree)
    node = list(ast.walk(new))[k]
    if op.startswith('cmp:'):
        node.ops[idx] = CMP[type(node.ops[idx])]()
    elif op == 'const+1':
        node.value = node.value + 1
    elif op == 'const-1':
        node.value = node.value - 1
    elif op.startswith('binop:'):
        node.op = ast.Sub() if isinstance(node.op, ast.Add) else ast.Add()
    elif op.startswith('boolop:'):
        node.op = ast.Or() if isinstance(node.op, ast.And) else ast.And()
    elif op == 'drop-not':
        # replace `not x` by `x` in place: mutate the node into its operand
        operand = node.operand
        node.__class__ = operand.__class__
        node.__dict__.clear()
        node.__dict__.update(operand.__dict__)
    elif op == 'negate-if':
        node.test = ast.UnaryOp(op=ast.Not(), operand=node.test)
    ast.fix_missing_locations(new)
    return new


def mutants_of(relpath):
    src = open(os.path.join(REPO, relpath), encoding='utf8').read()
    tree = ast.parse(src)
    c = Collector()
    c.visit(tree)
    lines = src.splitlines()
    out = []
    for node, op, idx in c.sites:
        try:
            new = apply(tree, node, op, idx)
            text = ast.unparse(new)
        except Exception as ex:     # a site the transformer cannot handle: skip it
            continue
        ln = getattr(node, 'lineno', 0)
        out.append({'file': relpath, 'line': ln, 'op': op, 'src': lines[ln - 1].strip() if ln else '', 'text': text})
    return out


def sh(cmd, **kw):
    return subprocess.run(cmd, stdout=subprocess.PIPE, stderr=subprocess.STDOUT, text=True, **kw)


def run_one(m):
    scratch = tempfile.mkdtemp(prefix='cuv-mut-')
    try:
        root = os.path.join(scratch, 'repo')
        shutil.copytree(REPO, root, ignore=shutil.ignore_patterns('.git', '__pycache__', '*.pyc', '.pytest_cache', 'docs', '*.egg-info'))
        with open(os.path.join(root, m['file']), 'w', encoding='utf8') as f:
            f.write(m['text'])
        env = dict(os.environ, PYTHONPATH=root, PYTHONDONTWRITEBYTECODE='1', PYTHONHASHSEED='0')
        try:
            t = sh([PY, '-B', '-m', 'pytest', '-q', '-x', '-p', 'no:cacheprovider', '--timeout=120'], cwd=root, env=env, timeout=900)
            tests_ok = t.returncode == 0
        except subprocess.TimeoutExpired:
            tests_ok = False
        res = {k: m[k] for k in ('file', 'line', 'op', 'src')}
        res['killed_by_tests'] = not tests_ok
        res['killed_by'] = None
        if tests_ok:
            env2 = dict(os.environ, VERIF_REPO=root, VERIF_EVIDENCE_DIR=os.path.join(scratch, 'ev'), VERIF_REPLAY_DIR=os.path.join(scratch, 'rp'))
            for p in RELEVANT.get(m['file'], []):
                try:
                    out = sh([os.path.join(VERIF, 'check'), p, '--tier', 'quick'], cwd=VERIF, env=env2, timeout=1800).stdout
                except subprocess.TimeoutExpired:
                    out = 'VIOLATION (timeout)'
                v = [l for l in out.splitlines() if l.startswith('VIOLATION')]
                if v:
                    res['killed_by'] = p + (' (no-failing-input)' if all('no-failing-input-found' in l for l in v) else '')
                    break
        return res
    finally:
        shutil.rmtree(scratch, ignore_errors=True)


def main():
    args = sys.argv[1:]
    files = None
    limit = None
    jobs = 4
    out = os.path.join(VERIF, 'logs', 'mutation_sweep.jsonl')
    for a in args:
        if a.startswith('--files='):
            files = a[8:].split(',')
        elif a.startswith('--limit='):
            limit = int(a[8:])
        elif a.startswith('--jobs='):
            jobs = int(a[7:])
        elif a.startswith('--out='):
            out = a[6:]
    os.makedirs(os.path.dirname(out), exist_ok=True)
    # work from a snapshot of the committed tree, so that experiments that patch /repo meanwhile cannot leak in
    global REPO
    base = tempfile.mkdtemp(prefix='cuv-mutbase-')
    subprocess.run('git -C %s archive HEAD | tar -x -C %s' % (REPO, base), shell=True, check=True)
    REPO = base
    ms = []
    for rel in (files or sorted(RELEVANT)):
        ms.extend(mutants_of(rel))
    if limit:
        import random
        random.Random(0).shuffle(ms)
        ms = ms[:limit]
    print('%d mutants' % len(ms), flush=True)
    n = kt = kc = 0
    with open(out, 'a') as f, concurrent.futures.ThreadPoolExecutor(max_workers=jobs) as ex:
        for res in ex.map(run_one, ms):
            n += 1
            kt += res['killed_by_tests']
            kc += bool(res['killed_by'])
            f.write(json.dumps(res) + '\n')
            f.flush()
            if not res['killed_by_tests'] and not res['killed_by']:
                print('SURVIVOR %s:%d %s | %s' % (res['file'], res['line'], res['op'], res['src']), flush=True)
            if n % 25 == 0:
                print('%d done: %d killed by the tests, %d of the %d test-survivors killed by the checks' % (n, kt, kc, n - kt), flush=True)
    print('TOTAL %d mutants: %d killed by the tests; of %d test-survivors %d killed by the checks, %d survive' % (n, kt, n - kt, kc, n - kt - kc))


if __name__ == '__main__':
    main()
