"""C01 — ISO8583 round trip: decoding an encoded message returns every value unchanged."""
from util import hb, outcome
import isoutil as iu

ID = 'C01'
RULE = ('well-formed messages: random subsets of the configured elements (every configured bit hit, bits above 64 forced), '
        'lengths drawn from {1, 2, max-1, max, uniform}, numeric extremes, dates at the window edges, PDS + ICC + DE43 together, '
        '12 codecs x {binary, hex} bitmap x {packaged, generated configurations with PAN / PAN-PREFIX / PDS / ICC processors}; '
        'thorough adds every single element at many lengths; non-trivial = distinct message with at least one data element')
CODEC_ALIASES = True     # one implementation run in three is given an alias spelling of the codec name (worker.for_impl)
CALL_VARIANTS = True     # bytearray messages, positional arguments and earlier failing calls around the harness's loads / dumps calls (worker.install_call_variants)
EXHAUSTIVE = {}
ASSUMPTIONS = ['decimal typed elements (one generated configuration in five): the plain fixed-point sub-domain is modelled (a Decimal is carried by its text, model/Dec.v); exponent forms, NaN / Infinity, underscores and non-ASCII digits are Unmodelled, as are non-canonical date strings (skipped by the comparer)',
               'DE43_* entries are compared with the regex model (pattern translated from the configuration on every run)']


THREADS = True


def thread_ok(case):
    return not case.get('warm') and not case.get('global')

def gen(rng, tier):
    cases = []
    n = 3600 if tier == 'quick' else 45000
    pk = iu.packaged()
    for i in range(n):
        codec = iu.CODECS[i % len(iu.CODECS)]
        hexbm = (i // len(iu.CODECS)) % 2 == 1
        if i % 3 == 2:
            dec = i % 15 == 14
            # (one generated configuration in five also has decimal typed elements: inside the theorem's domain too - the
            # model carries a decimal by its text, model/Dec.v, props/C01dec.v)
            cfg = iu.gen_config(rng, allbits=(i % 9 == 8), modelled_only=True, decimals=dec)   # otherwise the theorem's domain: wf_cfgb
            m = iu.rand_message(rng, cfg, codec)
            # (`global`: the caller has REPLACED the packaged configuration - cardutil.config.config['bit_config'] = ... after
            # import - and calls without iso_config: the configuration in force is the one set, not the one at import)
            cases.append(dict({'cfg': cfg, 'codec': codec, 'hex': hexbm, 'msg': iu.dict_text(m)}, **({'dec': True} if dec else {}),
                              **({'global': True} if i % 21 == 11 else {})))
        else:
            m = iu.rand_message(rng, pk, codec)
            cases.append({'cfg': None, 'codec': codec, 'hex': hexbm, 'msg': iu.dict_text(m)})
    cases.extend(iu.collision_cases(rng, 180 if tier == 'quick' else 3000))
    # every configured element alone, at boundary lengths
    for b in sorted(int(k) for k in pk if int(k) >= 2):
        for j in range(3 if tier == 'quick' else 40):
            codec = rng.choice(iu.CODECS)
            m = iu.rand_message(rng, pk, codec, with_pds=False, bits=[b])
            cases.append({'cfg': None, 'codec': codec, 'hex': rng.random() < 0.5, 'msg': iu.dict_text(m)})
    return cases


def impl(case):
    from cardutil import iso8583
    def warm_call(w, c):
        wb = iso8583.dumps(iu.dict_of_text(w['msg']), encoding=w['codec'], iso_config=c, hex_bitmap=w['hex'])
        iso8583.loads(wb, encoding=w['codec'], iso_config=c, hex_bitmap=w['hex'])
    cfg = iu.run_warm(case, warm_call)
    if case.get('global'):
        from cardutil import config as _config
        old = _config.config['bit_config']
        _config.config['bit_config'] = cfg
        try:
            return impl_calls(case, None)
        finally:
            _config.config['bit_config'] = old
    return impl_calls(case, cfg)


def impl_calls(case, cfg):
    from cardutil import iso8583
    m = iu.dict_of_text(case['msg'])
    res = {'dumps': outcome(lambda: iso8583.dumps(dict(m), encoding=case['codec'], iso_config=cfg, hex_bitmap=case['hex']), hb)}
    if res['dumps'].startswith('OK '):
        b = bytes.fromhex(res['dumps'][3:]) if res['dumps'][3:] != '-' else b''
        res['loads'] = outcome(lambda: iso8583.loads(b, encoding=case['codec'], iso_config=cfg, hex_bitmap=case['hex']), iu.dict_text)
    return res


def model_lines(case, io_):
    pre = '%s %s %s ' % (iu.cfg_text(case['cfg']), iu.hs(case['codec']), '1' if case['hex'] else '0')
    lines = ['dumps ' + pre + case['msg'], 'wf_msg %s %s %s' % (iu.cfg_text(case['cfg']), iu.hs(case['codec']), case['msg'])]
    if io_.get('dumps', '').startswith('OK '):
        lines.append('loads ' + pre + io_['dumps'][3:])
    return lines


def judge(case, io_, mo):
    ps = []
    cfg = case['cfg'] if case['cfg'] is not None else iu.packaged()
    m = iu.dict_of_text(case['msg'])
    if not io_.get('dumps', '').startswith('OK '):
        return [{'kind': 'oracle', 'sig': 'dumps-refused-wf-message', 'msg': 'encoding a well-formed message failed: %s' % io_.get('dumps')}]
    lo = io_.get('loads', '')
    if not lo.startswith('OK '):
        return [{'kind': 'oracle', 'sig': 'loads-refused-own-encoding', 'msg': 'decoding the encoded message failed: %s' % lo}]
    d = iu.dict_of_text(lo[3:])
    for k, v in m.items():
        want = iu.expected_back(cfg, k, v)
        if k not in d:
            ps.append({'kind': 'oracle', 'sig': 'key-lost', 'msg': 'key %s missing after round trip' % k})
            break
        if d[k] != want or type(d[k]) is not type(want):
            ps.append({'kind': 'oracle', 'sig': 'value-changed', 'msg': 'key %s: %r came back as %r' % (k, want, d[k])})
            break
    extra = [k for k in d if k not in m and not iu.derived_key(cfg, k)]
    if extra and not ps:
        ps.append({'kind': 'oracle', 'sig': 'undocumented-extra-key', 'msg': 'extra keys %s' % extra[:3]})
    if mo is not None and not ps:
        if mo[1] != 'OK 111':
            # generator and theorem domain disagree: the case is outside wf_cfgb / codec_okb / wf_msgb
            ps.append({'kind': 'corr', 'sig': 'domain', 'msg': 'generated message is not in the theorem domain (wf_cfg, codec_ok, wf_msg) = %s' % mo[1]})
            return ps
        mo = [mo[0]] + mo[2:]
        if mo[0].startswith('UNMODELLED') or (len(mo) > 1 and mo[1].startswith('UNMODELLED')):
            return ps
        if mo[0] != io_['dumps']:
            ps.append({'kind': 'corr', 'sig': 'dumps', 'msg': 'dumps differs from model: %s vs %s' % (io_['dumps'][:120], mo[0][:120])})
        elif len(mo) > 1 and (not mo[1].startswith('OK ') or iu.canon_entries(mo[1][3:], drop_other=True) != iu.canon_entries(lo[3:], drop_other=True)):
            ps.append({'kind': 'corr', 'sig': 'loads', 'msg': 'loads differs from model: %s vs %s' % (lo[:150], mo[1][:150])})
    return ps


def nontrivial(case, io_):
    return case['msg'].count(';') >= 1


def label(case):
    n = case['msg'].count(';')
    fam = 'ascii' if case['codec'] in iu.ASCII_CODECS else 'ebcdic'
    return '%s/%s/%s/elements=%s' % ('packaged' if case['cfg'] is None else 'generated', fam, 'hex' if case['hex'] else 'bin',
                                     '0' if n == 0 else '1-5' if n <= 5 else '6-20' if n <= 20 else '21+')
