"""C02 — ISO8583 wire format conforms to the documented layout, in both directions."""
import itertools
from util import hb, outcome
import isoutil as iu

ID = 'C02'
RULE = ('message dicts over the encoding domain (fixed text of any length: truncated/padded; variable values up to and beyond '
        'the prefix capacity: 99/100/101, 999/1000/1001): every single configured element and sampled/exhaustive pairs of '
        'elements, larger subsets sampled, x codecs x {binary, hex} bitmap x {packaged, generated all-bits configuration}; '
        'implementation bytes compared byte-for-byte with an independent reference encoder and its decoding key-for-key with '
        'an independent reading of the reference bytes; non-trivial = distinct message with at least one element')
CODEC_ALIASES = True     # one implementation run in three is given an alias spelling of the codec name (worker.for_impl)
CALL_VARIANTS = True     # bytearray messages, positional arguments and earlier failing calls around the harness's loads / dumps calls (worker.install_call_variants)
EXHAUSTIVE = {'thorough': True}
ASSUMPTIONS = ['integers are in-width and non-negative (an over-wide integer is a caller error outside every property)',
               'DE43_* entries are compared with the regex model (pattern translated on every run) and, for the packaged pattern, with an independent non-regex reading']


THREADS = True


def thread_ok(case):
    return not case.get('warm')

def enc_value(rng, c, codec, over=False):
    ft = c['field_type']
    if c.get('field_processor') == 'ICC' or c.get('field_python_type'):
        if over and ft != 'FIXED' and c.get('field_processor') == 'ICC':
            return bytes(rng.randrange(1, 255) for _ in range(1000))
        return iu.rand_value(rng, c, codec)
    if ft == 'FIXED':
        w = c['field_length']
        n = rng.choice([w, w, max(1, w - 1), w + 1, 1, w + 7])
        return iu.rand_text(rng, codec, n)
    vmax = 99 if ft == 'LLVAR' else 999
    if over:
        return iu.rand_text(rng, codec, rng.choice([vmax + 1, vmax + 2, 1000, 1001]))
    if c.get('field_processor') in ('PDS', 'PAN', 'PAN-PREFIX'):
        return iu.rand_value(rng, c, codec)
    return iu.rand_text(rng, codec, rng.choice([1, 2, vmax - 1, vmax, rng.randint(1, vmax)]))


def mk(rng, cfg_obj, cfg, codec, hexbm, bits, over_bit=None):
    m = {'MTI': ''.join(rng.choice('0123456789') for _ in range(4))}
    for b in bits:
        m['DE%d' % b] = enc_value(rng, cfg[str(b)], codec, over=(b == over_bit))
    return {'cfg': cfg_obj, 'codec': codec, 'hex': hexbm, 'msg': iu.dict_text(m), 'over': over_bit is not None}


def gen(rng, tier):
    cases = []
    pk = iu.packaged()
    gcfg = iu.gen_config(rng, allbits=True)
    for cfg_obj, cfg in ((None, pk), (gcfg, gcfg)):
        bits = sorted(int(k) for k in cfg if 2 <= int(k) <= 127)
        for b in bits:
            for _ in range(2 if tier == 'quick' else 6):
                cases.append(mk(rng, cfg_obj, cfg, rng.choice(iu.CODECS), rng.random() < 0.5, [b]))
            if cfg[str(b)]['field_type'] != 'FIXED' and cfg[str(b)].get('field_python_type') is None:
                cases.append(mk(rng, cfg_obj, cfg, rng.choice(iu.CODECS), rng.random() < 0.5, [b], over_bit=b))
        pairs = list(itertools.combinations(bits, 2))
        if tier == 'quick':
            pairs = rng.sample(pairs, min(400, len(pairs)))
        for a, b in pairs:
            cases.append(mk(rng, cfg_obj, cfg, rng.choice(iu.CODECS), rng.random() < 0.5, [a, b]))
        for _ in range(450 if tier == 'quick' else 6000):
            k = rng.choice([3, 5, 10, 20, len(bits)])
            cases.append(mk(rng, cfg_obj, cfg, rng.choice(iu.CODECS), rng.random() < 0.5, sorted(rng.sample(bits, min(k, len(bits))))))
    # PDS values that make a packed carrier exceed 999 characters are refused too
    for n in (993, 994, 1000):
        cases.append({'cfg': None, 'codec': 'latin_1', 'hex': False, 'msg': iu.dict_text({'MTI': '1144', 'PDS0001': 'x' * n}), 'over': True})
    # the same raw text under several configurations, with earlier calls in the same process (caches, shared state)
    for cc in iu.collision_cases(rng, 60 if tier == 'quick' else 1500):
        cases.append({'cfg': cc['cfg'], 'codec': cc['codec'], 'hex': cc['hex'], 'msg': cc['msg'], 'warm': cc.get('warm', []), 'over': False})
    # the merchant field on its own under the packaged configuration: every way the documented shape can be met or missed
    for _ in range(150 if tier == 'quick' else 3000):
        codec = rng.choice(['latin_1', 'cp500', 'cp037', 'ascii', 'cp1252'])
        m = {'MTI': '1240', 'DE43': iu.rand_de43(rng, codec, 99)}
        if rng.random() < 0.3:
            m['DE2'] = '5' * rng.randint(12, 19)
        cases.append({'cfg': None, 'codec': codec, 'hex': rng.random() < 0.3, 'msg': iu.dict_text(m), 'over': False})
    return cases


def impl(case):
    from cardutil import iso8583

    def warm_call(w, c):
        wb = iso8583.dumps(iu.dict_of_text(w['msg']), encoding=w['codec'], iso_config=c, hex_bitmap=w['hex'])
        iso8583.loads(wb, encoding=w['codec'], iso_config=c, hex_bitmap=w['hex'])
    cfg = iu.run_warm(case, warm_call)
    m = iu.dict_of_text(case['msg'])
    res = {'dumps': outcome(lambda: iso8583.dumps(dict(m), encoding=case['codec'], iso_config=cfg, hex_bitmap=case['hex']), hb)}
    try:
        ref = iu.ref_wire(m, cfg if cfg is not None else iu.packaged(), case['codec'], case['hex'])
    except iu.Refused:
        ref = None
    if ref is not None:
        res['loads_ref'] = outcome(lambda: iso8583.loads(ref, encoding=case['codec'], iso_config=cfg, hex_bitmap=case['hex']), iu.dict_text)
    return res


def reading(ref, cfg, codec, hexbm):
    """independent reading of reference bytes: element values plus the documented derived entries"""
    d = iu.ref_loads(ref, cfg, codec, hexbm, strict=True)
    if d is None:
        return None
    out = dict(d)
    for k, v in d.items():
        if k == 'MTI':
            continue
        c = cfg[k[2:]]
        p = c.get('field_processor')
        if p == 'PDS':
            sub = iu.ref_pds_walk(v)
            if sub is None:
                return None
            out.update(sub)
        elif p == 'ICC':
            sub = iu.ref_tlv_walk(v)
            if sub is None:
                return None
            out.update(sub)
        elif p == 'DE43' and isinstance(v, str):
            sub = iu.ref_de43(v, c.get('field_processor_config'))
            if sub is None:
                out['?DE43'] = True          # a pattern without an independent reading: DE43_* entries not judged
            else:
                out.update(sub)
    return out


def model_lines(case, io_):
    pre = '%s %s %s ' % (iu.cfg_text(case['cfg']), iu.hs(case['codec']), '1' if case['hex'] else '0')
    lines = ['dumps ' + pre + case['msg']]
    try:
        ref = iu.ref_wire(iu.dict_of_text(case['msg']), case['cfg'] if case['cfg'] is not None else iu.packaged(), case['codec'], case['hex'])
        lines.append('loads ' + pre + (ref.hex() or '-'))
    except iu.Refused:
        pass
    return lines


def judge(case, io_, mo):
    ps = []
    cfg = case['cfg'] if case['cfg'] is not None else iu.packaged()
    m = iu.dict_of_text(case['msg'])
    try:
        ref = iu.ref_wire(m, cfg, case['codec'], case['hex'])
    except iu.Refused:
        ref = None
    d = io_['dumps']
    if ref is None:
        if d.startswith('OK '):
            ps.append({'kind': 'oracle', 'sig': 'unrepresentable-value-emitted', 'msg': 'a value the layout cannot represent was encoded: %s...' % d[:90]})
        elif d != 'RAISE DATAERR' and mo is not None and mo[0] == 'RAISE DATAERR':
            ps.append({'kind': 'corr', 'sig': 'refusal-class', 'msg': 'refused with %s, model raises the library error' % d})
        return ps
    if d != 'OK ' + hb(ref):
        a, b = d, 'OK ' + hb(ref)
        i = next((i for i in range(min(len(a), len(b))) if a[i] != b[i]), min(len(a), len(b)))
        ps.append({'kind': 'oracle', 'sig': 'bytes-differ-from-documented-layout', 'msg': 'encoded bytes differ from the reference layout at hex offset %d: %s vs %s' % (i - 3, a[max(0, i - 8):i + 12], b[max(0, i - 8):i + 12])})
        return ps
    want = reading(ref, cfg, case['codec'], case['hex'])
    lo = io_.get('loads_ref', '')
    if want is not None:
        if not lo.startswith('OK '):
            ps.append({'kind': 'oracle', 'sig': 'layout-message-rejected', 'msg': 'a message of the documented layout is not decoded: %s' % lo})
        else:
            got = iu.dict_of_text(lo[3:])
            if want.pop('?DE43', False):
                got = {k: v for k, v in got.items() if not k.startswith('DE43_')}
                want = {k: v for k, v in want.items() if not k.startswith('DE43_')}
            if got != want or any(type(got[k]) is not type(want[k]) for k in got):
                bad = [k for k in set(got) | set(want) if got.get(k) != want.get(k)][:3]
                ps.append({'kind': 'oracle', 'sig': 'decoded-differs-from-independent-reading', 'msg': 'keys %s differ from the independent reading' % bad})
    if mo is not None and not ps and not mo[0].startswith('UNMODELLED') and mo[0] != d:
        ps.append({'kind': 'corr', 'sig': 'dumps', 'msg': 'dumps differs from model: %s vs %s' % (d[:100], mo[0][:100])})
    if mo is not None and not ps and len(mo) > 1 and not mo[1].startswith('UNMODELLED') and lo:
        same = (mo[1] == lo) if not lo.startswith('OK ') else (mo[1].startswith('OK ') and iu.canon_entries(mo[1][3:]) == iu.canon_entries(lo[3:]))
        if not same:
            ps.append({'kind': 'corr', 'sig': 'loads', 'msg': 'loads of the reference bytes differs from model: %s vs %s' % (lo[:120], mo[1][:120])})
    return ps


def nontrivial(case, io_):
    return ';' in case['msg']


def label(case):
    n = case['msg'].count(';')
    return '%s/%s/%s/elements=%s' % ('packaged' if case['cfg'] is None else 'generated', 'over-length' if case['over'] else 'representable',
                                     'hex' if case['hex'] else 'bin', '1' if n == 1 else '2' if n == 2 else '3+')
