"""C03 — VBS framing: any record list survives write then read, with byte-exact layout."""
import io
from util import hb, outcome
from props.framing import (B, BLK, hlist, payload_of, well_formed_blocks, vbs_ref, data_blocks, read_all_impl,
                           rend_text, record_content)

ID = 'C03'
RULE = ('record lists: single-record files of every length around 1, the 1012-byte payload boundaries and the 6000 maximum '
        '(thorough: every length 1..6000), content with 0x00/0x40 runs and embedded zero words, lists of 1..40 records, '
        'blocked and unblocked, through VbsWriter/VbsReader (write, write_many, both interleaved on one writer) and through vbs_list_to_bytes/vbs_bytes_to_list; '
        'non-trivial = distinct record list')
EXHAUSTIVE = {'thorough': True}
ASSUMPTIONS = ['records are non-empty and at most MAX_VBS_RECORD_LENGTH long (the stated domain)']


def gen(rng, tier):
    cases = []
    if tier == 'thorough':
        lens = list(range(1, 6001))
    else:
        lens = sorted({max(1, min(6000, c + d)) for c in (1, 1004, 1008, 1012, 2016, 2020, 2024, 3028, 3032, 3036, 5996, 6000) for d in range(-8, 9)}
                      | {rng.randrange(1, 6001) for _ in range(120)})
    for n in lens:
        for blocked in (False, True):
            cases.append({'lens': [n], 'blocked': blocked, 'api': 'class' if n % 2 else 'func', 'seed': rng.randrange(1 << 30)})
    for _ in range(400 if tier == 'quick' else 9000):
        k = rng.choice([1, 2, 3, 5, 10, 40])
        cap = 6000 if k <= 3 else 1300 if k <= 10 else 300
        ls = [rng.choice([1, 2, 4, 1004, 1008, 1012, 1016, rng.randrange(1, cap + 1)]) if cap >= 1016 else rng.randrange(1, cap + 1) for _ in range(k)]
        cases.append({'lens': ls, 'blocked': rng.random() < 0.5, 'api': rng.choice(['class', 'func', 'with', 'mixed', 'mixed']), 'seed': rng.randrange(1 << 30)})
    # unblocked files whose bytes at the positions where a blocked file has its trailers (1012-1013, 2026-2027, ...) are all
    # 0x40: fixed-width records of EBCDIC blanks.  Read with the documented defaults (no `blocked` argument at all): a
    # file is what the caller says it is, not what it looks like
    for n, k in ((200, 15), (250, 12), (1010, 4), (60, 60), (2030, 2)):
        cases.append({'lens': [n] * k, 'blocked': False, 'api': 'class', 'seed': 0, 'blank': True, 'defaults': True})
        cases.append({'lens': [n] * k, 'blocked': False, 'api': 'func', 'seed': 0, 'blank': True, 'defaults': True})
    # "the configured maximum record length" is a setting: config.config['MAX_VBS_RECORD_LENGTH'] changed by the caller
    # after the library was imported (smaller and larger than the packaged 6000), records up to exactly that length
    for _ in range(60 if tier == 'quick' else 1500):
        m = rng.choice([40, 100, 1012, 6001, 7000, 12000])
        k = rng.choice([1, 2, 4])
        ls = [rng.choice([m, m, m - 1, max(1, m // 2), rng.randrange(1, m + 1)]) for _ in range(k)]
        cases.append({'lens': ls, 'blocked': rng.random() < 0.5, 'api': rng.choice(['class', 'func', 'with']), 'seed': rng.randrange(1 << 30), 'maxlen': m})
    return cases


def records(case):
    import random
    if case.get('blank'):
        return [b'\x40' * n for n in case['lens']]
    r = random.Random(case['seed'])
    return [record_content(r, n) for n in case['lens']]


def impl(case):
    if case.get('maxlen') is not None:
        from cardutil import config as _config
        old = _config.config.get('MAX_VBS_RECORD_LENGTH')
        _config.config['MAX_VBS_RECORD_LENGTH'] = case['maxlen']
        try:
            return impl_run(case)
        finally:
            _config.config['MAX_VBS_RECORD_LENGTH'] = old
    return impl_run(case)


def impl_run(case):
    from cardutil import mciipm
    rs = records(case)
    blocked = case['blocked']

    def write():
        if case['api'] == 'func':
            return mciipm.vbs_list_to_bytes(rs, blocked=blocked)
        f = io.BytesIO()
        if case['api'] == 'with':
            with mciipm.VbsWriter(f, blocked=blocked) as w:
                w.write_many(rs)
        elif case['api'] == 'mixed':
            # write() and write_many() interleaved on one writer (header, a batch, a single record, a generator batch ...)
            import random
            r2 = random.Random(case['seed'] + 1)
            w = mciipm.VbsWriter(f, blocked=blocked)
            i = 0
            while i < len(rs):
                k = r2.choice([0, 1, 1, 2, 3, 7])
                if r2.random() < 0.5:
                    w.write(rs[i])
                    i += 1
                elif r2.random() < 0.5:
                    w.write_many(rs[i:i + k])
                    i += k
                else:
                    w.write_many(x for x in rs[i:i + k])
                    i += k
            w.close()
        else:
            w = mciipm.VbsWriter(f, blocked=blocked)
            for r in rs:
                w.write(r)
            w.close()
        return f.getvalue()
    wo = outcome(write, hb)
    res = {'file': wo}
    if wo.startswith('OK '):
        f = bytes.fromhex(wo[3:]) if wo[3:] != '-' else b''
        if case.get('defaults'):
            # no `blocked` argument at all
            if case['api'] == 'func':
                res['read'] = outcome(lambda: mciipm.vbs_bytes_to_list(f), lambda l: hlist(l) + '|END')
            else:
                res['read'] = outcome(lambda: list(mciipm.VbsReader(io.BytesIO(f))), lambda l: hlist(l) + '|END')
        elif case['api'] == 'func':
            res['read'] = outcome(lambda: mciipm.vbs_bytes_to_list(f, blocked=blocked), lambda l: hlist(l) + '|END')
        else:
            res['read'] = rend_text(*read_all_impl(f, blocked))
            if len(rs) >= 2 and len(f) % 3 == 0:
                # two readers open on the file at the same time, asked for a record in turn
                def both():
                    ra, rb = mciipm.VbsReader(io.BytesIO(f), blocked=blocked), mciipm.VbsReader(io.BytesIO(f), blocked=blocked)
                    a, b2 = [], []
                    for x, y in zip(ra, rb):
                        a.append(x)
                        b2.append(y)
                    return [a, b2]
                res['two'] = outcome(both, lambda ab: hlist(ab[0]) + '|' + hlist(ab[1]))
    return res


def model_lines(case, io_):
    rs = records(case)
    b = '1' if case['blocked'] else '0'
    lines = ['vbs_write %s %s' % (b, ','.join(['W' + (r.hex() or '_') for r in rs] + ['C']))]
    if io_.get('file', '').startswith('OK '):
        lines.append(('vbs_readm %d %s %s' % (case['maxlen'], b, io_['file'][3:])) if case.get('maxlen') is not None else 'vbs_read %s %s' % (b, io_['file'][3:]))
    return lines


def judge(case, io_, mo):
    ps = []
    rs = records(case)
    if not io_.get('file', '').startswith('OK '):
        return [{'kind': 'oracle', 'sig': 'write-failed', 'msg': 'writing failed: %s' % io_.get('file')}]
    f = bytes.fromhex(io_['file'][3:]) if io_['file'][3:] != '-' else b''
    stream = vbs_ref(rs)
    if not case['blocked']:
        if f != stream:
            ps.append({'kind': 'oracle', 'sig': 'unblocked-layout', 'msg': 'unblocked file is not length-prefixed records + zero terminator'})
    else:
        p = payload_of(f)
        if not well_formed_blocks(f) or p[:len(stream)] != stream or any(x != 0x40 for x in p[len(stream):]):
            ps.append({'kind': 'oracle', 'sig': 'blocked-layout', 'msg': 'blocked file does not carry the VBS stream (+0x40 fill) as payload in whole blocks'})
    want = 'OK ' + hlist(rs) + '|END'
    if io_.get('read') != want:
        ps.append({'kind': 'oracle', 'sig': 'roundtrip', 'msg': 'records read back differ from records written: %s' % str(io_.get('read'))[-60:]})
    if 'two' in io_ and io_['two'] != 'OK ' + hlist(rs) + '|' + hlist(rs):
        ps.append({'kind': 'oracle', 'sig': 'two-readers-in-turn', 'msg': 'two readers open on the same file and asked in turn do not both return the records written: %s' % io_['two'][-80:]})
    if mo is not None and not ps:
        n = len(stream)
        mf = bytes.fromhex(mo[0][3:]) if mo[0][3:] != '-' else b''
        if (data_blocks(mf, n) != data_blocks(f, n)) if case['blocked'] else (mf != f):
            ps.append({'kind': 'corr', 'sig': 'vbs_write', 'msg': 'VbsWriter file differs from model writer_run'})
        if len(mo) > 1 and mo[1] != io_['read']:
            ps.append({'kind': 'corr', 'sig': 'vbs_read', 'msg': 'VbsReader result differs from model read_all: %s vs %s' % (mo[1][-40:], io_['read'][-40:])})
    return ps


def nontrivial(case, io_):
    return True


def label(case):
    n = len(case['lens'])
    return '%s/%s/records=%s' % ('1014' if case['blocked'] else 'vbs', case['api'], '1' if n == 1 else '2-5' if n <= 5 else '6+')
