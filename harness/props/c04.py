"""C04 — 1014 blocking: output is well-formed and data-exact for every write sequence."""
import io
from util import hb, outcome
from props.framing import B, BLK, coded, hlist, payload_of, well_formed_blocks

ID = 'C04'
RULE = ('write sequences: residues of bytes-already-written mod 1012, each reached by three chunkings (one write; a write '
        'ending exactly on the block boundary so the trailer is pending, then the rest; byte-wise tail), crossed with the next '
        'write length (0,1,2, r-1,r,r+1 around the remaining space, 1011..1013, 2023..2025, 3035..3037; thorough: many more), '
        'plus random longer histories with empty writes and one-shot block_1014 on the same data; position-coded content; '
        'non-trivial = distinct case writing at least 1 byte')
EXHAUSTIVE = {}
ASSUMPTIONS = ['io.BytesIO behaves as the {data; pos} file-object model']


def reach(res, style):
    """write lengths that leave `res` bytes written (mod 1012) in different internal situations"""
    if style == 0:
        return [res] if res else []
    if style == 1:      # first fill a block exactly in one write (trailer written, remaining = 1012), then res
        return [B, res] if res else [B]
    if style == 2:      # a long write ending exactly on a boundary leaves the trailer pending (remaining = 0)
        return [2 * B] + ([res] if res else [])
    # byte-wise tail
    head = max(0, res - 3)
    return ([head] if head else []) + [1] * (res - head)


def gen(rng, tier):
    cases = []
    if tier == 'quick':
        residues = sorted(set([0, 1, 2, 3, 4, 5, 500, 1006, 1007, 1008, 1009, 1010, 1011] + [rng.randrange(B) for _ in range(60)]))
    else:
        residues = list(range(B))
    for res in residues:
        rem = B - res
        nexts = {0, 1, 2, max(0, rem - 1), rem, rem + 1, 1011, 1012, 1013, 2023, 2024, 2025, 3035, 3036, 3037,
                 rem + B - 1, rem + B, rem + B + 1, rem + 2 * B, rem + 2 * B + 1}
        if tier != 'quick':
            nexts |= {rng.randrange(3037) for _ in range(12)}
        for style in range(4):
            pre = reach(res, style)
            for n in sorted(nexts):
                cases.append({'kind': 'stream', 'writes': pre + [n]})
    nrand = 300 if tier == 'quick' else 4000
    for _ in range(nrand):
        k = rng.choice([1, 2, 3, 5, 8, 20, 60])
        ws = []
        big = 1 if k > 8 else 3
        for _ in range(k):
            r = rng.random()
            ws.append(0 if r < 0.15 else rng.choice([1, 2, 4, 1008, 1011, 1012, 1013, 1014, 2024, 2028][:10 if big > 1 else 7]) if r < 0.5
                      else rng.randrange(0, 400 * big) if r < 0.9 else rng.randrange(0, 1400 * big))
        cases.append({'kind': 'stream', 'writes': ws})
    for n in sorted(set([0, 1, 2, 1011, 1012, 1013, 1014, 2023, 2024, 2025, 3036, 5060] +
                        [rng.randrange(0, 5000) for _ in range(40 if tier == 'quick' else 600)])):
        cases.append({'kind': 'oneshot', 'n': n})
    return cases


def chunks(case):
    out, pos = [], 0
    for n in case['writes']:
        out.append(coded(pos, n))
        pos += n
    return out


def impl(case):
    from cardutil import mciipm
    if case['kind'] == 'stream':
        def run():
            f = io.BytesIO()
            b = mciipm.Block1014(f)
            ws = chunks(case)
            style = sum(case['writes']) % 3
            if style == 1 and ws:
                # the usual copy loop: ONE buffer is refilled and a view of it is handed to write() each time
                buf = bytearray(max(len(w) for w in ws) or 1)
                view = memoryview(buf)
                for w in ws:
                    buf[:len(w)] = w
                    b.write(view[:len(w)])
                    buf[:len(w)] = b'\xee' * len(w)      # the caller reuses its buffer at once
            elif style == 2:
                for w in ws:
                    b.write(bytearray(w))
            else:
                for w in ws:
                    b.write(w)
            b.seek(0)          # finalises, as VbsWriter.close does
            return f.getvalue()

        def one():
            o = io.BytesIO()
            mciipm.block_1014(io.BytesIO(b''.join(chunks(case))), o)
            return o.getvalue()
        return {'out': outcome(run, hb), 'one': outcome(one, hb)}
    data = coded(0, case['n'])

    def run1():
        o = io.BytesIO()
        mciipm.block_1014(io.BytesIO(data), o)
        return o.getvalue()
    return {'out': outcome(run1, hb)}


def model_lines(case, io_):
    if case['kind'] == 'stream':
        return ['blk ' + hlist(chunks(case))]
    data = coded(0, case['n'])
    return ['blk1 ' + hb(data), 'blk1_spec ' + hb(data)]


def judge(case, io_, mo):
    ps = []
    o = io_.get('out', '')
    if not o.startswith('OK '):
        return [{'kind': 'oracle', 'sig': 'outcome-' + o.split(' ')[-1], 'msg': 'blocking did not return: %s' % io_}]
    f = bytes.fromhex(o[3:]) if o[3:] != '-' else b''
    data = b''.join(chunks(case)) if case['kind'] == 'stream' else coded(0, case['n'])
    # (c) the property itself, on the implementation's output
    if not well_formed_blocks(f):
        ps.append({'kind': 'oracle', 'sig': 'not-whole-blocks-with-trailers', 'msg': 'output of %d bytes is not whole 1014-byte blocks each ending in 4040' % len(f)})
    else:
        p = payload_of(f)
        if p[:len(data)] != data:
            k = next((i for i in range(min(len(p), len(data))) if p[i] != data[i]), min(len(p), len(data)))
            ps.append({'kind': 'oracle', 'sig': 'payload-differs-from-data', 'msg': 'payload differs from the bytes written at offset %d' % k})
        elif any(x != 0x40 for x in p[len(data):]):
            ps.append({'kind': 'oracle', 'sig': 'fill-not-0x40', 'msg': 'bytes after the data are not all 0x40'})
        elif len(p) - len(data) > B or (case['kind'] == 'oneshot' and len(p) - len(data) >= B):
            ps.append({'kind': 'oracle', 'sig': 'too-much-fill', 'msg': '%d fill bytes' % (len(p) - len(data))})
    if case['kind'] == 'stream':
        one = io_.get('one', '')
        if one != o and not (one.startswith('OK ') and f == (bytes.fromhex(one[3:]) if one[3:] != '-' else b'') + b'\x40' * BLK):
            ps.append({'kind': 'oracle', 'sig': 'stream-differs-from-oneshot', 'msg': 'streaming output is neither the one-shot output for the same data nor that plus one all-fill block'})
    if mo is not None:
        if case['kind'] == 'stream':
            # the property allows an optional trailing all-fill block, so the correspondence is taken on the
            # blocks that carry data (the oracle above judges what follows them)
            need = 3 + 2 * BLK * ((len(data) + B - 1) // B)
            if mo[0][:need] != o[:need] and not ps:
                ps.append({'kind': 'corr', 'sig': 'blk', 'msg': 'Block1014 output differs from model bwrite/bfinalise in the data-carrying blocks'})
        else:
            if mo[1] != o:
                ps.append({'kind': 'oracle', 'sig': 'oneshot-differs-from-documented-layout', 'msg': 'block_1014 output differs from the specified layout'})
            if mo[0] != o:
                ps.append({'kind': 'corr', 'sig': 'blk1', 'msg': 'block_1014 output differs from model block_oneshot'})
    return ps


def nontrivial(case, io_):
    return sum(case['writes']) > 0 if case['kind'] == 'stream' else case['n'] > 0


def label(case):
    if case['kind'] == 'oneshot':
        return 'oneshot/blocks=%d' % min(5, (case['n'] + B - 1) // B)
    tot = sum(case['writes'])
    return 'stream/writes=%s/blocks=%d' % ('1' if len(case['writes']) == 1 else '2-4' if len(case['writes']) <= 4 else '5+', min(5, tot // B + 1))
