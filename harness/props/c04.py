"""C04 — 1014 blocking: output is well-formed and data-exact for every write sequence."""
import io
from util import hb, outcome
from props.framing import B, BLK, coded, hlist, payload_of, well_formed_blocks

ID = 'C04'
RULE = ('write sequences: residues of bytes-already-written mod 1012, each reached by three chunkings (one write; a write '
        'ending exactly on the block boundary so the trailer is pending, then the rest; byte-wise tail), crossed with the next '
        'write length (0,1,2, r-1,r,r+1 around the remaining space, 1011..1013, 2023..2025, 3035..3037; thorough: many more), '
        'plus random longer histories with empty writes and one-shot block_1014 on the same data; position-coded content; '
        'non-trivial = distinct case writing at least 1 byte')
EXHAUSTIVE = {}
ASSUMPTIONS = ['io.BytesIO behaves as the {data; pos} file-object model']


def reach(res, style):
    """write lengths that leave `res` bytes written (mod 1012) in different internal situations"""
    if style == 0:
        return [res] if res else []
    if style == 1:      # first fill a block exactly in one write (trailer written, remaining = 1012), then res
        return [B, res] if res else [B]
    if style == 2:      # a long write ending exactly on a boundary leaves the trailer pending (remaining = 0)
        return [2 * B] + ([res] if res else [])
    # byte-wise tail
    head = max(0, res - 3)
    return ([head] if head else []) + [1] * (res - head)


def gen(rng, tier):
    cases = []
    if tier == 'quick':
        residues = sorted(set([0, 1, 2, 3, 4, 5, 500, 1006, 1007, 1008, 1009, 1010, 1011] + [rng.randrange(B) for _ in range(60)]))
    else:
        residues = list(range(B))
    for res in residues:
        rem = B - res
        nexts = {0, 1, 2, max(0, rem - 1), rem, rem + 1, 1011, 1012, 1013, 2023, 2024, 2025, 3035, 3036, 3037,
                 rem + B - 1, rem + B, rem + B + 1, rem + 2 * B, rem + 2 * B + 1}
        if tier != 'quick':
            nexts |= {rng.randrange(3037) for _ in range(12)}
        for style in range(4):
            pre = reach(res, style)
            for n in sorted(nexts):
                cases.append({'kind': 'stream', 'writes': pre + [n]})
    nrand = 300 if tier == 'quick' else 4000
    for _ in range(nrand):
        k = rng.choice([1, 2, 3, 5, 8, 20, 60])
        ws = []
        big = 1 if k > 8 else 3
        for _ in range(k):
            r = rng.random()
            ws.append(0 if r < 0.15 else rng.choice([1, 2, 4, 1008, 1011, 1012, 1013, 1014, 2024, 2028][:10 if big > 1 else 7]) if r < 0.5
                      else rng.randrange(0, 400 * big) if r < 0.9 else rng.randrange(0, 1400 * big))
        case = {'kind': 'stream', 'writes': ws}
        if _ % 3 == 0:
            # a SECOND blocker alive at the same time, written alternately with this one (one input split over two
            # outputs), or - `abandon` - a blocker left with a partial block and never finalised before this one starts
            case['other'] = [rng.choice([1, 4, 30, 200, 1008, 1012, 1500]) if rng.random() < 0.6 else rng.randrange(0, 600) for _k in range(rng.randint(1, max(1, len(ws))))]
            case['abandon'] = rng.random() < 0.3
        cases.append(case)
    for n in sorted(set([0, 1, 2, 1011, 1012, 1013, 1014, 2023, 2024, 2025, 3036, 5060] +
                        [rng.randrange(0, 5000) for _ in range(40 if tier == 'quick' else 600)])):
        cases.append({'kind': 'oneshot', 'n': n})
    return cases


def chunks(case, which='writes'):
    out, pos = [], 0
    for n in case.get(which, ()):
        out.append(coded(pos, n, salt=0 if which == 'writes' else 91))
        pos += n
    return out


def impl(case):
    from cardutil import mciipm
    if case['kind'] == 'stream':
        box = {}

        def run():
            f = io.BytesIO()
            ws = chunks(case)
            other = chunks(case, 'other')
            f2 = io.BytesIO()
            if other and case.get('abandon'):
                b0 = mciipm.Block1014(f2)
                for w in other:
                    b0.write(w)            # never finalised
                other = []
            b = mciipm.Block1014(f)
            b2 = mciipm.Block1014(f2) if other else None
            if b2 is not None:
                for i, w in enumerate(ws):
                    b.write(w)
                    if i < len(other):
                        b2.write(other[i])
                for w in other[len(ws):]:
                    b2.write(w)
                b.seek(0)
                b2.seek(0)
                box['out2'] = f2.getvalue().hex()
                return f.getvalue()
            style = sum(case['writes']) % 3
            if style == 1 and ws:
                # a caller that reuses its buffers: each write gets a bytearray which the caller overwrites as soon as the
                # call returns (whatever the blocker still needs of it, it must have taken by then)
                for w in ws:
                    ba = bytearray(w)
                    b.write(ba)
                    ba[:] = b'\xee' * len(ba)
            elif style == 2:
                for w in ws:
                    b.write(bytearray(w))
            else:
                for w in ws:
                    b.write(w)
            b.seek(0)          # finalises, as VbsWriter.close does
            return f.getvalue()

        def one():
            o = io.BytesIO()
            mciipm.block_1014(io.BytesIO(b''.join(chunks(case))), o)
            return o.getvalue()
        res = {'out': outcome(run, hb), 'one': outcome(one, hb)}
        if 'out2' in box:
            res['out2'] = 'OK ' + (box['out2'] or '-')
        return res
    data = coded(0, case['n'])

    def run1():
        o = io.BytesIO()
        mciipm.block_1014(io.BytesIO(data), o)
        return o.getvalue()
    return {'out': outcome(run1, hb)}


def model_lines(case, io_):
    if case['kind'] == 'stream':
        return ['blk ' + hlist(chunks(case))] + (['blk ' + hlist(chunks(case, 'other'))] if case.get('other') and not case.get('abandon') else [])
    data = coded(0, case['n'])
    return ['blk1 ' + hb(data), 'blk1_spec ' + hb(data)]


def judge(case, io_, mo):
    ps = []
    o = io_.get('out', '')
    if not o.startswith('OK '):
        return [{'kind': 'oracle', 'sig': 'outcome-' + o.split(' ')[-1], 'msg': 'blocking did not return: %s' % io_}]
    f = bytes.fromhex(o[3:]) if o[3:] != '-' else b''
    data = b''.join(chunks(case)) if case['kind'] == 'stream' else coded(0, case['n'])
    # (c) the property itself, on the implementation's output
    if not well_formed_blocks(f):
        ps.append({'kind': 'oracle', 'sig': 'not-whole-blocks-with-trailers', 'msg': 'output of %d bytes is not whole 1014-byte blocks each ending in 4040' % len(f)})
    else:
        p = payload_of(f)
        if p[:len(data)] != data:
            k = next((i for i in range(min(len(p), len(data))) if p[i] != data[i]), min(len(p), len(data)))
            ps.append({'kind': 'oracle', 'sig': 'payload-differs-from-data', 'msg': 'payload differs from the bytes written at offset %d' % k})
        elif any(x != 0x40 for x in p[len(data):]):
            ps.append({'kind': 'oracle', 'sig': 'fill-not-0x40', 'msg': 'bytes after the data are not all 0x40'})
        elif len(p) // B - (len(data) + B - 1) // B > 1:
            # "at most one block holds fill only" - for the streaming blocker and the one-shot function alike
            ps.append({'kind': 'oracle', 'sig': 'too-much-fill', 'msg': '%d fill bytes: more than one block holds fill only' % (len(p) - len(data))})
    if case['kind'] == 'stream':
        one = io_.get('one', '')
        fone = (bytes.fromhex(one[3:]) if one[3:] != '-' else b'') if one.startswith('OK ') else None
        fillblk = b'\x40' * BLK
        # the same file "apart from that optional trailing all-fill block" - which either of the two may have
        if one != o and not (fone is not None and (f == fone + fillblk or fone == f + fillblk)):
            ps.append({'kind': 'oracle', 'sig': 'stream-differs-from-oneshot', 'msg': 'streaming output is neither the one-shot output for the same data nor that plus one all-fill block'})
    o2 = io_.get('out2')
    if o2 is not None:
        f2 = bytes.fromhex(o2[3:]) if o2[3:] != '-' else b''
        d2 = b''.join(chunks(case, 'other'))
        if not well_formed_blocks(f2) or payload_of(f2)[:len(d2)] != d2 or any(x != 0x40 for x in payload_of(f2)[len(d2):]):
            ps.append({'kind': 'oracle', 'sig': 'second-live-blocker-output-wrong', 'msg': 'a second Block1014 written alternately with the first did not produce whole blocks carrying exactly its own data'})
        elif mo is not None and len(mo) > 1:
            need2 = 3 + 2 * BLK * ((len(d2) + B - 1) // B)
            if mo[1][:need2] != o2[:need2]:
                ps.append({'kind': 'corr', 'sig': 'blk-second', 'msg': 'second blocker output differs from the model'})
    if mo is not None:
        if case['kind'] == 'stream':
            # the property allows an optional trailing all-fill block, so the correspondence is taken on the
            # blocks that carry data (the oracle above judges what follows them)
            need = 3 + 2 * BLK * ((len(data) + B - 1) // B)
            if mo[0][:need] != o[:need] and not ps:
                ps.append({'kind': 'corr', 'sig': 'blk', 'msg': 'Block1014 output differs from model bwrite/bfinalise in the data-carrying blocks'})
        else:
            # as for the streaming blocker: compared on the blocks that carry data (what may follow them is judged above)
            need = 3 + 2 * BLK * ((len(data) + B - 1) // B)
            if mo[1][:need] != o[:need] and not ps:
                ps.append({'kind': 'oracle', 'sig': 'oneshot-differs-from-documented-layout', 'msg': 'block_1014 output differs from the specified layout in the data-carrying blocks'})
            if mo[0][:need] != o[:need] and not ps:
                ps.append({'kind': 'corr', 'sig': 'blk1', 'msg': 'block_1014 output differs from model block_oneshot in the data-carrying blocks'})
    return ps


def nontrivial(case, io_):
    return sum(case['writes']) > 0 if case['kind'] == 'stream' else case['n'] > 0


def label(case):
    if case['kind'] == 'oneshot':
        return 'oneshot/blocks=%d' % min(5, (case['n'] + B - 1) // B)
    tot = sum(case['writes'])
    return 'stream/writes=%s/blocks=%d' % ('1' if len(case['writes']) == 1 else '2-4' if len(case['writes']) <= 4 else '5+', min(5, tot // B + 1))
