"""C05 — 1014 unblocking: reads return the exact payload stream for every read sequence."""
import io
from util import hb, outcome
from props.framing import (in_stream, B, BLK, coded, hlist, payload_of, well_formed_blocks, lay_ref, block_ref, slices_ref,
                           read_all_impl, rend_text, vbs_ref, record_content)

ID = 'C05'
RULE = ('blocked inputs (whole files of 1..4 blocks, and files cut short) x read-size sequences: every residue of bytes '
        'already delivered mod 1012 reached by different chunkings x next read size (0 = no size, 1, 2, around the rest of the '
        'block, 1011..1013, 2023..2025), random longer sequences; one-shot unblock_1014 on every kind of truncation and '
        'single-byte trailer corruption; VbsReader on a blocked file vs on its payload; non-trivial = distinct case that '
        'delivers at least one byte or is refused')
EXHAUSTIVE = {}
ASSUMPTIONS = ['negative read sizes are outside the property (the signature\'s sentinel for "all" is 0)']


def gen(rng, tier):
    cases = []
    residues = sorted(set([0, 1, 2, 3, 1009, 1010, 1011] + [rng.randrange(B) for _ in range(40)])) if tier == 'quick' else list(range(0, B, 1)) if tier == 'thorough' else []
    for res in residues:
        rem = B - res
        nexts = sorted({0, 1, 2, max(1, rem - 1), rem, rem + 1, 1011, 1012, 1013, 2023, 2024, 2025, rem + B, rem + B + 1})
        for style in range(3):
            pre = ([res] if res else []) if style == 0 else ([B, res] if res else [B]) if style == 1 else ([max(0, res - 2)] if res > 2 else []) + [1] * min(res, 2)
            pre = [x for x in pre if x > 0]
            for n in nexts:
                cases.append({'kind': 'reads', 'n': 3 * B + rng.choice([0, 1, 500]), 'cut': None, 'ns': pre + [n, rng.choice([0, 1, 7, 1012])]})
    for _ in range(400 if tier == 'quick' else 5000):
        n = rng.choice([0, 1, 5, 1011, 1012, 1013, 2024, 3000, 4048])
        k = rng.choice([1, 2, 5, 12, 40])
        ns = [rng.choice([0, 1, 2, 3, 4, 100, 1011, 1012, 1013, 1014, 2024, rng.randrange(1, 1500)]) for _ in range(k)]
        cut = rng.choice([None, None, rng.randrange(0, BLK * 4)])
        cases.append({'kind': 'reads', 'n': n, 'cut': cut, 'ns': ns})
    # a file that ends inside a block: every position of the end relative to the payload / trailer boundary
    for kblk in range(0, 4):
        for d in (1, 2, 3, 1010, 1011, 1012, 1013):
            for ns in ([0], [1] * 5 + [0], [B, 0], [d, 0], [max(1, d - 1), 1, 1, 1], [rng.randrange(1, 3000) for _ in range(4)] + [0]):
                cases.append({'kind': 'reads', 'n': 5 * B, 'cut': kblk * BLK + d, 'ns': ns})
    # very large sized reads (hundreds of blocks in one call) on a large file
    for big in ((129536, 0), (200000, 7), (1, 250000, 0)):
        cases.append({'kind': 'reads', 'n': 300 * B + 17, 'cut': None, 'ns': list(big)})
    # one-shot unblock: inverse of blocking, every truncation class, every trailer corruption
    for n in sorted(set([0, 1, 1011, 1012, 1013, 2024, 2025, 3036] + [rng.randrange(0, 3100) for _ in range(15 if tier == 'quick' else 200)])):
        cases.append({'kind': 'inv', 'n': n})
    full = 3 * BLK
    cuts = range(0, full + 1) if tier == 'thorough' else sorted(set(list(range(0, 6)) + [c + d for c in (BLK, 2 * BLK, full) for d in range(-4, 3) if 0 <= c + d <= full] + [rng.randrange(full) for _ in range(40)]))
    for c in cuts:
        cases.append({'kind': 'trunc', 'n': 3 * B - 5, 'cut': c})
    for blk in range(3):
        for off in (B, B + 1):
            for v in (0x00, 0x41, 0x20):
                cases.append({'kind': 'corrupt', 'n': 3 * B - 5, 'pos': blk * BLK + off, 'val': v})
    # record reading from a blocked file == from the equivalent unblocked stream
    for _ in range(150 if tier == 'quick' else 2000):
        k = rng.choice([1, 2, 3, 6])
        rs = [record_content(rng, rng.choice([1, 2, 4, 300, 1004, 1008, 1012, 2020, rng.randrange(1, 2500)])) for _ in range(k)]
        f = block_ref(vbs_ref(rs))
        cut = rng.choice([None, rng.randrange(0, len(f) + 1), rng.randrange(0, len(f) + 1)])
        junk = rng.random() < 0.15
        cases.append({'kind': 'reader', 'file': (bytes(rng.randrange(256) for _ in range(rng.randrange(0, 2100))) if junk else f[:cut] if cut is not None else f).hex()})
    return cases


def the_file(case):
    if case['kind'] == 'reader':
        return bytes.fromhex(case['file'])
    f = block_ref(coded(0, case['n']))
    if case['kind'] in ('reads', 'trunc') and case.get('cut') is not None:
        f = f[:case['cut']]
    if case['kind'] == 'corrupt':
        f = f[:case['pos']] + bytes([case['val']]) + f[case['pos'] + 1:]
    return f


def impl(case):
    from cardutil import mciipm
    f = the_file(case)
    if case['kind'] == 'reads':
        def run():
            u = mciipm.Unblock1014(in_stream(f, True))
            return [u.read(n) if n else u.read() for n in case['ns']]
        return {'out': outcome(run, hlist)}
    if case['kind'] == 'reader':
        r1, e1 = read_all_impl(f, True)
        r2, e2 = read_all_impl(payload_of(f), False)
        return {'blocked': rend_text(r1, e1), 'plain': rend_text(r2, e2)}
    if case['kind'] == 'inv':
        data = coded(0, case['n'])

        def run():
            mid, o = io.BytesIO(), io.BytesIO()
            mciipm.block_1014(io.BytesIO(data), mid)
            mciipm.unblock_1014(mid, o)
            return o.getvalue()
        return {'out': outcome(run, hb)}

    def run1():
        o = io.BytesIO()
        mciipm.unblock_1014(io.BytesIO(f), o)
        return o.getvalue()
    return {'out': outcome(run1, hb)}


def model_lines(case, io_):
    f = the_file(case)
    if case['kind'] == 'reads':
        return ['unblk_reads %s %s' % (hb(f), ','.join(map(str, case['ns'])) or '-')]
    if case['kind'] == 'reader':
        return ['vbs_read 1 ' + hb(f)]
    return ['unblk1 ' + hb(f)]


def judge(case, io_, mo):
    ps = []
    f = the_file(case)
    k = case['kind']
    if k == 'reads':
        want = 'OK ' + hlist(slices_ref(payload_of(f), case['ns']))
        if io_['out'] != want:
            ps.append({'kind': 'oracle', 'sig': 'reads-not-slices-of-payload', 'msg': 'reads %s do not return successive slices of the payload stream (%s)' % (case['ns'], io_['out'][:60])})
        elif mo is not None and mo[0] != io_['out']:
            ps.append({'kind': 'corr', 'sig': 'uread', 'msg': 'Unblock1014.read differs from model uread'})
    elif k == 'reader':
        if io_['blocked'] != io_['plain']:
            ps.append({'kind': 'oracle', 'sig': 'blocked-reader-differs-from-unblocked', 'msg': 'records from the blocked file differ from records of its payload stream: %s vs %s' % (io_['blocked'][-80:], io_['plain'][-80:])})
        elif mo is not None and mo[0] != io_['blocked']:
            ps.append({'kind': 'corr', 'sig': 'vbs_read', 'msg': 'VbsReader(blocked) differs from model read_all'})
    else:
        if k == 'inv':
            data = coded(0, case['n'])
            fill = (B - len(data) % B) % B
            want = 'OK ' + hb(data + b'\x40' * fill)
        else:
            want = 'OK ' + hb(payload_of(f)) if well_formed_blocks(f) else 'RAISE DATAERR'
        # "inverts the blocking function up to 0x40 fill": the one-shot blocker may close with the optional all-fill block
        # (C04), which then comes back as one more block of fill
        extra = hb(b'\x40' * B)
        ok = io_['out'] == want or (k == 'inv' and io_['out'] == want + extra and case['n'] > 0)
        if not ok:
            ps.append({'kind': 'oracle', 'sig': 'oneshot-' + k, 'msg': 'unblock_1014 (%s): got %s, expected %s' % (k, io_['out'][:50], want[:50])})
        elif mo is not None and mo[0] != io_['out'] and not (k == 'inv' and io_['out'] == mo[0] + extra):
            ps.append({'kind': 'corr', 'sig': 'unblk1', 'msg': 'unblock_1014 differs from model unblock_oneshot'})
    return ps


def nontrivial(case, io_):
    return len(the_file(case)) > 0


def label(case):
    k = case['kind']
    if k == 'reads':
        return 'reads/%s/%s' % ('cut' if case.get('cut') is not None else 'whole', 'with-readall' if 0 in case['ns'] else 'sized')
    return k
