"""C06 — IPM file round trip: messages written are the messages read back; instances are independent."""
import io
from util import hb, outcome
import isoutil as iu
from props.framing import data_blocks, in_stream

ID = 'C06'
RULE = ('lists of well-formed messages (1..300 records so that files span many blocks, heterogeneous shapes incl. PDS, ICC, typed '
        'fields) x {latin_1, cp500, cp037, cp1252} x {VBS, 1014} x {packaged, generated} configuration; interleavings of 2..4 '
        'reader/writer instances on different files, each instance compared with its solo run, class-level attributes of '
        'VbsReader read before and after; non-trivial = distinct case with at least 2 records')
CODEC_ALIASES = True     # one implementation run in three is given an alias spelling of the codec name (worker.for_impl)
EXHAUSTIVE = {}
ASSUMPTIONS = ['interleaving is at method-call granularity in one thread (cardutil has no threads or locks)']


def gen(rng, tier):
    cases = []
    pk = iu.packaged()
    for i in range(60 if tier == 'quick' else 900):
        codec = ['latin_1', 'cp500', 'cp037', 'cp1252'][i % 4]
        cfg = None if i % 3 else iu.gen_config(rng)
        n = rng.choice([1, 2, 3, 10, 40]) if i % 10 else rng.choice([150, 300])
        msgs = []
        for _ in range(n):
            m = iu.rand_message_fit(rng, cfg or pk, codec, nbits=rng.choice([1, 3, 8, 15]))
            if n > 20:
                def short(k, v):
                    c = (cfg or pk).get(k[2:]) if k.startswith('DE') else None
                    if isinstance(v, str) and c and c['field_type'] != 'FIXED' and not c.get('field_processor'):
                        return v[:30]
                    return v
                m = {k: short(k, v) for k, v in m.items()}
            msgs.append(iu.dict_text(m))
        cases.append({'kind': 'file', 'cfg': cfg, 'codec': codec, 'blocked': i % 2 == 0, 'msgs': msgs})
    # records whose frames end within a few bytes of a 1012-byte payload boundary
    targets = [t + d for t in (1012, 2024, 3036) for d in range(-6, 7)]
    if tier == 'quick':
        targets = [t for t in targets if (t % 1012) in (0, 1, 2, 3, 1009, 1010, 1011)]
    for t in targets:
        codec = rng.choice(['latin_1', 'cp500'])
        body = t - 4 - 20            # frame = 4 + MTI 4 + bitmap 16 + elements
        m = {'MTI': '1240'}
        for de in ('DE54', 'DE72', 'DE111', 'DE127'):
            if body <= 0:
                break
            n = min(999, body - 3)
            if n < 1:
                break
            m[de] = iu.rand_text(rng, codec, n)
            body -= n + 3
        if body != 0:
            m['DE2'] = '4' * max(1, body - 2) if body >= 3 else None
            if m['DE2'] is None:
                del m['DE2']
        msgs = [iu.dict_text(m), iu.dict_text(iu.rand_message_fit(rng, pk, codec, nbits=3))]
        cases.append({'kind': 'file', 'cfg': None, 'codec': codec, 'blocked': True, 'msgs': msgs})
    for i in range(40 if tier == 'quick' else 600):
        k = rng.choice([2, 3, 4])
        insts = []
        cfgs = same_keys_configs(rng, k) if i % 2 else [None] * k
        for j in range(k):
            codec = rng.choice(['latin_1', 'cp500'])
            c = cfgs[j]
            msgs = [iu.dict_text(iu.rand_message_fit(rng, c or pk, codec, nbits=rng.choice([1, 3, 6]), **({'with_pds': True} if c else {}))) for _ in range(rng.choice([1, 2, 4, 7]))]
            insts.append({'role': rng.choice(['reader', 'writer', 'writer', 'vbsreader']), 'codec': codec, 'blocked': rng.random() < 0.5, 'msgs': msgs, 'cfg': c})
        steps = [j for j, inst in enumerate(insts) for _ in range(len(inst['msgs']) + 2)]
        rng.shuffle(steps)
        cases.append({'kind': 'interleave', 'insts': insts, 'order': steps})
    return cases


def write_file(msgs, codec, blocked, cfg):
    from cardutil import mciipm
    f = io.BytesIO()
    with mciipm.IpmWriter(f, encoding=codec, blocked=blocked, iso_config=cfg) as w:
        for m in msgs:
            w.write(dict(m))
    return f.getvalue()


def ref_file(msgs, codec, blocked, cfg):
    """the file the documentation describes for these messages, built without the library"""
    from props.framing import vbs_ref, block_ref
    stream = vbs_ref([iu.ref_wire(m, cfg if cfg is not None else iu.packaged(), codec, False) for m in msgs])
    return block_ref(stream) if blocked else stream


def same_keys_configs(rng, k):
    """k configurations over the SAME element numbers with the roles dealt differently (which elements carry PDS data,
    which are text / numbers): instances that are given different configurations must not take one for another"""
    bits = sorted(rng.sample(range(2, 128), 7))
    out = []
    # listed in the same (ascending) order by all of them half of the time: then even the sequence of keys is the same
    same_order = rng.random() < 0.5
    for _ in range(k):
        order = list(bits)
        rng.shuffle(order)
        cfg = {}
        for j, b in enumerate(order):
            if j < 2:
                c = {'field_type': 'LLLVAR', 'field_length': 0, 'field_processor': 'PDS'}
            elif j < 4:
                c = {'field_type': 'LLVAR', 'field_length': 0}
            elif j == 4:
                c = {'field_type': 'FIXED', 'field_length': 6, 'field_python_type': 'int'}
            else:
                c = {'field_type': 'FIXED', 'field_length': rng.choice([3, 8, 12])}
            c['field_name'] = 'f%d' % b
            cfg[str(b)] = c
        out.append({str(b): cfg[str(b)] for b in bits} if same_order else cfg)
    return out


class Inst:
    """one reader/writer instance driven step by step"""
    def __init__(self, spec):
        from cardutil import mciipm
        self.spec = spec
        self.msgs = [iu.dict_of_text(t) for t in spec['msgs']]
        self.out = []
        self.i = 0
        if spec['role'] == 'writer':
            self.f = io.BytesIO()
            self.obj = mciipm.IpmWriter(self.f, encoding=spec['codec'], blocked=spec['blocked'], iso_config=spec.get('cfg'))
        else:
            data = ref_file(self.msgs, spec['codec'], spec['blocked'], spec.get('cfg'))
            cls = mciipm.IpmReader if spec['role'] == 'reader' else mciipm.VbsReader
            kw = {'encoding': spec['codec'], 'iso_config': spec.get('cfg')} if spec['role'] == 'reader' else {}
            self.obj = cls(in_stream(data, spec['blocked']), blocked=spec['blocked'], **kw)
            self.it = iter(self.obj)

    def step(self):
        if self.spec['role'] == 'writer':
            if self.i < len(self.msgs):
                self.obj.write(dict(self.msgs[self.i]))
            elif self.i == len(self.msgs):
                self.obj.close()
                self.out.append(self.f.getvalue().hex())
        elif 'STOP' not in self.out:
            try:
                r = next(self.it)
                self.out.append(iu.dict_text(r) if isinstance(r, dict) else r.hex())
            except StopIteration:
                self.out.append('STOP')
            self.out.append('n=%s' % self.obj.record_number)
        self.i += 1


def impl(case):
    from cardutil import mciipm
    if case['kind'] == 'file':
        msgs = [iu.dict_of_text(t) for t in case['msgs']]
        res = {'file': outcome(lambda: write_file(msgs, case['codec'], case['blocked'], case['cfg']), hb)}
        if res['file'].startswith('OK '):
            f = bytes.fromhex(res['file'][3:])

            def rd():
                return [iu.dict_text(d) for d in mciipm.IpmReader(in_stream(f, case['blocked']), encoding=case['codec'], blocked=case['blocked'], iso_config=case['cfg'])]
            res['read'] = outcome(rd, lambda l: '/'.join(l) or '-')
        return res
    before = (mciipm.VbsReader.record_number, mciipm.VbsReader.last_record, mciipm.IpmReader.record_number)
    def run(order):
        insts = [Inst(s) for s in case['insts']]
        for j in order:
            insts[j].step()
        return [i.out for i in insts]
    inter = run(case['order'])
    solo = run(sorted(case['order']))
    # what each writer must have produced, whoever else was at work: the documented file of its own messages under its own
    # configuration (data-carrying blocks; an optional trailing all-fill block is allowed)
    wrong_writer = None
    for j, spec in enumerate(case['insts']):
        if spec['role'] == 'writer' and inter[j]:
            msgs = [iu.dict_of_text(t) for t in spec['msgs']]
            want = ref_file(msgs, spec['codec'], spec['blocked'], spec.get('cfg'))
            got = bytes.fromhex(inter[j][0])
            n = len(want) if not spec['blocked'] else None
            ok = (got == want) if not spec['blocked'] else (got[:len(want)] == want or want[:len(got)] == got and set(want[len(got):]) <= {0x40})
            if not ok and wrong_writer is None:
                wrong_writer = j
    after = (mciipm.VbsReader.record_number, mciipm.VbsReader.last_record, mciipm.IpmReader.record_number)
    return {'same': inter == solo, 'class_attrs': before == after == (1, None, 1), 'first_diff': next((i for i, (a, b) in enumerate(zip(inter, solo)) if a != b), None),
            'wrong_writer': wrong_writer}


def model_lines(case, io_):
    if case['kind'] != 'file':
        return []
    pre = '%s %s %s ' % (iu.cfg_text(case['cfg']), iu.hs(case['codec']), '1' if case['blocked'] else '0')
    lines = ['ipm_write ' + pre + ('/'.join(case['msgs']) or '-')]
    if io_.get('file', '').startswith('OK '):
        lines.append('ipm_read ' + pre + io_['file'][3:])
    return lines


def judge(case, io_, mo):
    ps = []
    if case['kind'] == 'interleave':
        if not io_['same']:
            ps.append({'kind': 'oracle', 'sig': 'instances-influence-each-other', 'msg': 'instance %s behaves differently when interleaved with others' % io_['first_diff']})
        if not io_['class_attrs']:
            ps.append({'kind': 'oracle', 'sig': 'class-level-state-mutated', 'msg': 'VbsReader/IpmReader class attributes changed'})
        if io_.get('wrong_writer') is not None:
            ps.append({'kind': 'oracle', 'sig': 'writer-output-differs-among-other-instances', 'msg': 'writer instance %s, used together with other instances, did not produce the documented file of its own messages under its own configuration' % io_['wrong_writer']})
        return ps
    cfg = case['cfg'] if case['cfg'] is not None else iu.packaged()
    if not io_['file'].startswith('OK '):
        return [{'kind': 'oracle', 'sig': 'write-failed', 'msg': io_['file']}]
    rd = io_.get('read', '')
    if not rd.startswith('OK '):
        return [{'kind': 'oracle', 'sig': 'read-failed', 'msg': 'reading the written file failed: %s' % rd}]
    got = [] if rd[3:] == '-' else [iu.dict_of_text(t) for t in rd[3:].split('/')]
    want = [iu.dict_of_text(t) for t in case['msgs']]
    if len(got) != len(want):
        return [{'kind': 'oracle', 'sig': 'record-count', 'msg': '%d messages written, %d read back' % (len(want), len(got))}]
    for i, (m, d) in enumerate(zip(want, got)):
        for k, v in m.items():
            w = iu.expected_back(cfg, k, v)
            if k not in d or d[k] != w or type(d[k]) is not type(w):
                return [{'kind': 'oracle', 'sig': 'message-changed', 'msg': 'record %d key %s: %r came back as %r' % (i + 1, k, w, d.get(k))}]
        extra = [k for k in d if k not in m and not iu.derived_key(cfg, k)]
        if extra:
            return [{'kind': 'oracle', 'sig': 'undocumented-extra-key', 'msg': 'record %d extra keys %s' % (i + 1, extra[:3])}]
    if mo is not None and not any(x.startswith('UNMODELLED') for x in mo):
        f = bytes.fromhex(io_['file'][3:])
        mf = bytes.fromhex(mo[0][3:]) if mo[0].startswith('OK ') and mo[0][3:] != '-' else None
        if mf is None:
            ps.append({'kind': 'corr', 'sig': 'ipm_write', 'msg': 'model writer outcome %s' % mo[0][:80]})
        else:
            # data-carrying blocks only: the property allows an optional trailing all-fill block
            n = max((i for i in range(len(f), 0, -1) if f[i - 1] != 0x40), default=0)
            n2 = max((i for i in range(len(mf), 0, -1) if mf[i - 1] != 0x40), default=0)
            if (f[:n] != mf[:n2]) if case['blocked'] else (f != mf):
                ps.append({'kind': 'corr', 'sig': 'ipm_write', 'msg': 'IpmWriter file differs from model ipm_file'})
        if len(mo) > 1 and not ps:
            head, _, end = mo[1][3:].rpartition('|')
            mrecs = [] if head == '-' else [iu.canon_entries('-' if r == '~' else r, drop_other=True) for r in head.split('/')]
            irecs = [iu.canon_entries(t, drop_other=True) for t in ([] if rd[3:] == '-' else rd[3:].split('/'))]
            if end != 'END' or mrecs != irecs:
                ps.append({'kind': 'corr', 'sig': 'ipm_read', 'msg': 'IpmReader result differs from model iread_all (%s)' % end})
    return ps


def nontrivial(case, io_):
    return len(case['msgs']) >= 2 if case['kind'] == 'file' else True


def label(case):
    if case['kind'] == 'interleave':
        return 'interleave/instances=%d' % len(case['insts'])
    n = len(case['msgs'])
    return 'file/%s/%s/%s/records=%s' % ('packaged' if case['cfg'] is None else 'generated', case['codec'], '1014' if case['blocked'] else 'vbs',
                                          '1' if n == 1 else '2-10' if n <= 10 else '11-99' if n < 100 else '100+')
