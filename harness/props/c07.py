"""C07 — decoding never hangs or crashes: any bytes give a result or the library error."""
import io
import os
from util import hb, outcome, exc_class
import isoutil as iu
from props.framing import block_ref, vbs_ref, hlist, in_stream

ID = 'C07'
CASE_TIMEOUT = 8.0
JUDGES_HANG = True
RULE = ('byte strings as messages and as files: well-formed messages (packaged and generated configurations, ASCII/EBCDIC codecs, '
        'binary/hex bitmap) with every structural byte (MTI, bitmap, length prefixes, PDS sub-lengths, TLV tag/length bytes, typed '
        'values) substituted from an alphabet of digits, signs, space, underscore, NUL, 0x40, 0xFF, EBCDIC and superscript digits; '
        'truncate/insert/delete/bit-flip mutations; random bytes; VBS/IPM files built from those records with mutated length '
        'prefixes, truncation and block damage; CLI tool runs on malformed files; every case under a watchdog; '
        'non-trivial = distinct input that gets past the header checks (outcome is a dict or a data error raised after the bitmap was read)')
CALL_VARIANTS = True     # bytearray messages, positional arguments and earlier failing calls around the harness's loads / dumps calls (worker.install_call_variants)
EXHAUSTIVE = {}
ASSUMPTIONS = ['strptime / re / Decimal are total and fail only with the exception classes the code catches (oracles)',
               'memory exhaustion and interpreter limits are outside the model']
WITNESSES = [
    ('latin_1', False, b'1144' + bytes.fromhex('00000000000100000000000000000000') + b'0100001abc123'),
    ('latin_1', False, b'1144' + bytes.fromhex('00000000000100000000000000000000') + b'0070001-07'),
    ('latin_1', False, b'1144' + bytes.fromhex('00000000000100000000000000000000') + b'01400010000002-14'),
    ('latin_1', False, b'1144' + bytes.fromhex('00000000000002000000000000000000') + b'001\x82'),
    ('latin_1', True, b'1144' + b'zz' * 16),
    ('latin_1', False, b'1144' + bytes.fromhex('60000000000000000000000000000000') + b'-21234'),
]


def base_messages(rng, n):
    out = []
    pk = iu.packaged()
    for i in range(n):
        codec = ['latin_1', 'cp500', 'ascii', 'cp037', 'cp1252'][i % 5]
        hexbm = i % 4 == 3
        cfg = None if i % 3 else iu.gen_config(rng)
        m = iu.rand_message(rng, cfg or pk, codec, nbits=rng.choice([1, 2, 3, 5, 8]))
        # keep values short so that every structural byte can be visited
        for k, v in list(m.items()):
            if isinstance(v, (str, bytes)) and len(v) > 40 and k != 'MTI':
                c = (cfg or pk).get(k[2:]) if k.startswith('DE') else None
                if c is None or c['field_type'] != 'FIXED':
                    m[k] = v[:rng.choice([1, 5, 20])] if not isinstance(v, bytes) else iu.rand_tlv(rng, 30)
        try:
            b = iu.ref_wire(m, cfg or pk, codec, hexbm)
        except (iu.Refused, UnicodeEncodeError):
            continue
        out.append((cfg, codec, hexbm, b))
    return out


def gen(rng, tier):
    cases = []
    for codec, hexbm, b in WITNESSES:
        cases.append({'kind': 'msg', 'cfg': None, 'codec': codec, 'hex': hexbm, 'bytes': b.hex()})
    bases = base_messages(rng, 60 if tier == 'quick' else 900)
    pk = iu.packaged()
    budget = 9000 if tier == 'quick' else 250000
    per = max(20, budget // max(1, len(bases)))
    for cfg, codec, hexbm, b in bases:
        cases.append({'kind': 'msg', 'cfg': cfg, 'codec': codec, 'hex': hexbm, 'bytes': b.hex()})
        ms = iu.marks(b, cfg or pk, codec, hexbm)
        alpha = iu.alphabet(codec)
        subs = [(k, o, v) for k, o in ms for v in alpha if b[o] != v]
        rng.shuffle(subs)
        # structural kinds first: prefixes, PDS lengths and TLV bytes are always all visited
        subs.sort(key=lambda t: {'prefix': 0, 'pdslen': 0, 'tlv': 0, 'typed': 1, 'bitmap': 2, 'mti': 2}[t[0]])
        for k, o, v in subs[:per]:
            cases.append({'kind': 'msg', 'cfg': cfg, 'codec': codec, 'hex': hexbm, 'bytes': (b[:o] + bytes([v]) + b[o + 1:]).hex(), 'mut': k})
        for _ in range(max(5, per // 6)):
            cases.append({'kind': 'msg', 'cfg': cfg, 'codec': codec, 'hex': hexbm, 'bytes': iu.mutate(rng, b).hex(), 'mut': 'multi'})
        if hexbm:
            for bb in iu.hex_bitmap_blanks(rng, b):
                cases.append({'kind': 'msg', 'cfg': cfg, 'codec': codec, 'hex': hexbm, 'bytes': bb.hex(), 'mut': 'bitmap-blanks'})
    for i in range(300 if tier == 'quick' else 8000):
        n = rng.choice([0, 1, 3, 4, 19, 20, 21, 35, 36, 37, rng.randrange(0, 300)])
        raw = bytes(rng.randrange(256) for _ in range(n))
        if i % 3 == 0 and n >= 20:
            raw = b'1144' + raw[4:]
        cases.append({'kind': 'msg', 'cfg': None, 'codec': rng.choice(['latin_1', 'cp500', 'ascii']), 'hex': i % 5 == 0, 'bytes': raw.hex(), 'mut': 'random'})
    # the merchant field is split by a regular expression, and a regular expression can take exponential time on an input
    # it does not match: long runs and near misses of the documented shape (one character class repeated, the separators
    # in all counts, the tail one short or one long), at the lengths an LLVAR element allows
    for codec in ('latin_1', 'cp500'):
        runs = ['A', ' ', '\\', '1', 'A ', ' A', 'AB', 'A1 ', 'a\\', '  \\', '\t', 'A\\ ']
        vals = [(u * 99)[:n] for u in runs for n in (28, 45, 99)]
        for nsep in (1, 2, 3, 4):
            for w in (8, 22, 30):
                parts = [('W' * w + ' ' + 'X' * w)[:w] for _ in range(nsep)]
                body = '\\'.join(parts) + '\\'
                for tail in ('', '1234567890', '1234567890ABCAU', '1234567890ABCAUS', '1234567890ABC AU', '1234567890ABCAUSX'):
                    vals.append((body + tail)[:99])
        if tier == 'quick':
            vals = rng.sample(vals, 60)
        for v in vals:
            try:
                b = iu.ref_wire({'MTI': '1240', 'DE43': v}, pk, codec, False)
            except (iu.Refused, UnicodeEncodeError):
                continue
            cases.append({'kind': 'msg', 'cfg': None, 'codec': codec, 'hex': False, 'bytes': b.hex(), 'mut': 'de43-stress'})
    # chip data (DE55) that ends early in every way: after a one- or two-byte tag, after a length byte of every kind
    # (short form, the BER long-form markers 0x81..0x84, 0x80, 0xff) followed by 0..3 more bytes
    for codec in ('latin_1', 'cp500'):
        shapes = []
        for tag in (b'\x82', b'\x9f\x10', b'\x5f\x2a', b'\x9f'):
            for ln in (b'', b'\x00', b'\x01', b'\x02', b'\x7f', b'\x80', b'\x81', b'\x82', b'\x83', b'\x84', b'\xff'):
                for more in (b'', b'\x01', b'\x01\x02', b'\x01\x02\x03'):
                    shapes.append(tag + ln + more)
        if tier == 'quick':
            shapes = rng.sample(shapes, 70) + [b'\x9f\x10\x82\x01', b'\x82\x82\x01', b'\x9f\x10\x81']
        for icc in shapes:
            for pre in (b'', b'\x9a\x03\x21\x01\x02'):
                body = pre + icc
                b = '1240'.encode(codec) + bytes.fromhex('80000000000002000000000000000000') + ('%03d' % len(body)).encode(codec) + body
                cases.append({'kind': 'msg', 'cfg': None, 'codec': codec, 'hex': False, 'bytes': b.hex(), 'mut': 'icc-length-shapes'})
    # the same raw text under several configurations after earlier calls in the same process, and damaged versions of it
    for cc in iu.collision_cases(rng, 40 if tier == 'quick' else 1000):
        try:
            b = iu.ref_wire(iu.dict_of_text(cc['msg']), cc['cfg'], cc['codec'], cc['hex'])
            warm = [dict(cfg=w['cfg'], codec=w['codec'], hex=w['hex'], how=w.get('how', 'plain'),
                         bytes=iu.ref_wire(iu.dict_of_text(w['msg']), w['cfg'], w['codec'], w['hex']).hex()) for w in cc.get('warm', [])]
        except (iu.Refused, UnicodeEncodeError):
            continue
        for bb in (b, iu.mutate(rng, b), iu.mutate(rng, b)):
            cases.append({'kind': 'msg', 'cfg': cc['cfg'], 'codec': cc['codec'], 'hex': cc['hex'], 'bytes': bb.hex(), 'mut': 'collision', 'warm': warm})
    # files
    for i in range(120 if tier == 'quick' else 3000):
        k = rng.choice([1, 2, 3, 5])
        recs = []
        cfg, codec = None, rng.choice(['latin_1', 'cp500'])
        for _ in range(k):
            c2, cd2, hx, b = rng.choice(bases)
            recs.append(b if (c2 is None and not hx) else iu.ref_wire(iu.rand_message(rng, pk, codec, nbits=3), pk, codec, False))
        if rng.random() < 0.4:
            j = rng.randrange(len(recs))
            recs[j] = iu.mutate(rng, recs[j]) or b'x'
        blocked = rng.random() < 0.5
        stream = vbs_ref(recs)
        r = rng.random()
        if r < 0.3:      # damage a record length prefix
            pos = 0
            offs = []
            for rec in recs:
                offs.append(pos)
                pos += 4 + len(rec)
            o = rng.choice(offs) + rng.randrange(4)
            stream = stream[:o] + bytes([rng.choice([0, 1, 0x17, 0x40, 0x7f, 0x80, 0xff])]) + stream[o + 1:]
        f = block_ref(stream) if blocked else stream
        if r > 0.6:
            f = iu.mutate(rng, f)
        cases.append({'kind': 'file', 'reader': rng.choice(['ipm', 'ipm', 'vbs']), 'codec': codec, 'blocked': blocked, 'file': f.hex()})
    for i in range(40 if tier == 'quick' else 800):
        cases.append({'kind': 'file', 'reader': rng.choice(['ipm', 'vbs']), 'codec': 'latin_1', 'blocked': i % 2 == 0,
                      'file': bytes(rng.randrange(256) for _ in range(rng.choice([0, 3, 4, 8, 100, 1014, 2028, 2500]))).hex()})
    # command-line tools: every class of header the tools' own diagnostics distinguish (the except handler prints details
    # derived from an inspection of the file, so its code runs on exactly these inputs), crossed with a failing record
    def bmp(bits):
        b = bytearray(16)
        for bit in bits:
            b[(bit - 1) // 8] |= 1 << (7 - (bit - 1) % 8)
        return bytes(b)
    for rep in range(2 if tier == 'quick' else 30):
        for codec in ('latin_1', 'cp500'):
            e = lambda t: t.encode(codec)
            good = iu.ref_wire(iu.rand_message(rng, pk, codec, nbits=3), pk, codec, False)
            firsts = {
                'good': good,
                'mti-not-numeric': e('01O0') + bmp([1, 3]) + e('123456'),
                'mti-spaces': e('    ') + bmp([1, 3]) + e('123456'),
                'mti-nul': b'\x00' * 4 + bmp([1, 3]) + e('123456'),
                'mti-other-family': '1144'.encode('cp500' if codec == 'latin_1' else 'latin_1') + bmp([1, 3]) + e('123456'),
                'bad-field': e('1144') + bmp([1, 2]) + e('x6123456'),
                'unconfigured-bit': e('1144') + bmp([1, 7]) + e('123456'),
                'bit128': e('1144') + bmp([1, 128]) + e('123456'),
                'short': e('1144') + bmp([1])[:10],
                'pds-bad': e('1144') + bmp([1, 48]) + e('0100001abc123'),
            }
            for name, first in firsts.items():
                for blocked_file in (False, True):
                    recs = [first] + ([good] if rng.random() < 0.5 else []) + ([e('1144') + bmp([1, 4]) + e('00000000abcd')] if name == 'good' else [])
                    stream = vbs_ref(recs)
                    if rng.random() < 0.25:
                        stream = stream[:-4]                     # no terminator
                    f = block_ref(stream) if blocked_file else stream
                    for tool in ('mci_ipm_to_csv', 'mideu_extract'):
                        # read with the right and with the wrong blocking / encoding options
                        for blocked_opt, codec_opt in ((blocked_file, codec), (not blocked_file, codec), (blocked_file, 'cp500' if codec == 'latin_1' else 'latin_1')):
                            if rep and rng.random() < 0.5:
                                continue
                            cases.append({'kind': 'tool', 'tool': tool, 'codec': codec_opt, 'blocked': blocked_opt, 'file': f.hex(), 'hdr': name})
                            if tool == 'mci_ipm_to_csv' and codec_opt == codec and rng.random() < 0.6:
                                # the same without --in-encoding (the tool then goes by its own defaults / its inspection of the file)
                                cases.append({'kind': 'tool', 'tool': tool, 'codec': codec_opt, 'blocked': blocked_opt, 'file': f.hex(), 'hdr': name, 'noenc': True})
    for n in (0, 3, 4, 8, 23, 24, 25, 1014, 2028):
        raw = bytes(rng.randrange(256) for _ in range(n))
        for tool in ('mci_ipm_to_csv', 'mideu_extract'):
            cases.append({'kind': 'tool', 'tool': tool, 'codec': 'latin_1', 'blocked': n >= 1014, 'file': raw.hex(), 'hdr': 'random'})
            cases.append({'kind': 'tool', 'tool': tool, 'codec': 'cp500', 'blocked': False, 'file': (b'\x00\x00\x17\x71' + raw).hex(), 'hdr': 'length-too-big'})
    ntool = 40 if tier == 'quick' else 600
    files = [c for c in cases if c['kind'] == 'file' and c['reader'] == 'ipm']
    for c in rng.sample(files, min(ntool, len(files))):
        cases.append({'kind': 'tool', 'tool': rng.choice(['mci_ipm_to_csv', 'mideu_extract']), 'codec': c['codec'], 'blocked': c['blocked'], 'file': c['file']})
    return cases


def impl(case):
    from cardutil import iso8583, mciipm
    if case['kind'] == 'msg':
        b = bytes.fromhex(case['bytes'])
        cfg = iu.run_warm(case, lambda w, c: iso8583.loads(bytes.fromhex(w['bytes']), encoding=w['codec'], iso_config=c, hex_bitmap=w['hex']))
        return {'out': outcome(lambda: iso8583.loads(b, encoding=case['codec'], iso_config=cfg, hex_bitmap=case['hex']), iu.dict_text)}
    f = bytes.fromhex(case['file'])
    if case['kind'] == 'file':
        recs = []
        try:
            if case['reader'] == 'ipm':
                for d in mciipm.IpmReader(in_stream(f, case['blocked']), encoding=case['codec'], blocked=case['blocked']):
                    recs.append(iu.dict_text(d) if d else '~')
            else:
                for r in mciipm.VbsReader(in_stream(f, case['blocked']), blocked=case['blocked']):
                    recs.append(r.hex() or '_')
        except Exception as ex:
            cls = exc_class(ex)
            end = ('ERR:%s:%s' % (ex.record_number, (ex.binary_context_data or b'').hex() or '-')) if cls == 'DATAERR' else cls
        else:
            end = 'END'
        sep = '/' if case['reader'] == 'ipm' else ','
        return {'out': 'OK ' + (sep.join(recs) if recs else '-') + '|' + end}
    # tools: must return (0/-1/None), never raise
    import contextlib
    path = os.path.join(os.getcwd(), 'in_%d.ipm' % os.getpid())
    with open(path, 'wb') as g:
        g.write(f)

    def run():
        with contextlib.redirect_stdout(io.StringIO()):
            if case['tool'] == 'mci_ipm_to_csv':
                from cardutil.cli import mci_ipm_to_csv
                if case.get('noenc'):
                    return mci_ipm_to_csv.cli_run(**vars(mci_ipm_to_csv.cli_parser().parse_args([path, '-o', path + '.csv'] + ([] if case['blocked'] else ['--no1014blocking']))))
                return mci_ipm_to_csv.cli_run(in_filename=path, out_filename=path + '.csv', in_encoding=case['codec'], no1014blocking=not case['blocked'])
            from cardutil.cli import mideu
            args = ['extract', path, '-s', 'ebcdic' if case['codec'] == 'cp500' else 'ascii'] + ([] if case['blocked'] else ['--no1014blocking'])
            return mideu.cli_entry(args)
    try:
        return {'out': outcome(run, lambda r: 'returned')}
    finally:
        for p in (path, path + '.csv'):
            if os.path.exists(p):
                os.unlink(p)


def model_lines(case, io_):
    if case['kind'] == 'msg':
        return ['loads %s %s %s %s' % (iu.cfg_text(case['cfg']), iu.hs(case['codec']), '1' if case['hex'] else '0', case['bytes'] or '-')]
    if case['kind'] == 'file':
        if case['reader'] == 'ipm':
            return ['ipm_read packaged %s %s %s' % (iu.hs(case['codec']), '1' if case['blocked'] else '0', case['file'] or '-')]
        return ['vbs_read %s %s' % ('1' if case['blocked'] else '0', case['file'] or '-')]
    return []


def canon(kind, reader, o):
    """order-insensitive form of an outcome (dicts compare as finite maps)"""
    if not o.startswith('OK '):
        return o
    if kind == 'msg':
        return ('OK', tuple(sorted(iu.canon_entries(o[3:], drop_other=True).items())))
    if reader == 'ipm':
        head, _, end = o[3:].rpartition('|')
        recs = [] if head == '-' else [tuple(sorted(iu.canon_entries('-' if r == '~' else r, drop_other=True).items())) for r in head.split('/')]
        return ('OK', tuple(recs), end)
    return o


def judge(case, io_, mo):
    o = io_.get('out', 'HARNESS')
    k = case['kind']
    if k == 'tool':
        if o != 'OK returned':
            return [{'kind': 'oracle', 'sig': 'tool-' + case['tool'] + '-' + o.split(' ')[-1], 'msg': 'command %s did not stop with a diagnostic: %s' % (case['tool'], o)}]
        return []
    if k == 'msg':
        ok = o.startswith('OK ') or o == 'RAISE DATAERR'
        what = 'loads'
    else:
        end = o.rpartition('|')[2]
        ok = o.startswith('OK ') and (end == 'END' or end.startswith('ERR:'))
        what = case['reader'] + '-reader'
        o_cls = end
    if not ok:
        cls = (o if k == 'msg' else o_cls).split(' ')[-1]
        return [{'kind': 'oracle', 'sig': '%s-%s' % (what, cls), 'msg': '%s ended with %s (only a result or the library data error is allowed)' % (what, cls)}]
    if mo is not None and mo and not mo[0].startswith('UNMODELLED'):
        if canon(k, case.get('reader'), mo[0]) != canon(k, case.get('reader'), o):
            return [{'kind': 'corr', 'sig': what, 'msg': '%s outcome differs from model: %s vs %s' % (what, o[-200:], mo[0][-200:])}]
    return []


def nontrivial(case, io_):
    o = io_.get('out', '')
    if case['kind'] != 'msg':
        return len(case['file']) > 16
    return len(case['bytes']) >= 48


def label(case):
    if case['kind'] == 'msg':
        return 'msg/%s/%s' % (case.get('mut', 'valid'), 'hex' if case['hex'] else 'bin')
    if case['kind'] == 'file':
        return 'file/%s/%s' % (case['reader'], '1014' if case['blocked'] else 'vbs')
    return 'tool/' + case['tool'] + '/' + case.get('hdr', 'damaged-file')
