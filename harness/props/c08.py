"""C08 — decoding accepts exactly the well-framed messages and never mis-frames one."""
from util import hb, outcome
import isoutil as iu

ID = 'C08'
RULE = ('byte strings near the valid language: well-formed messages and their mutations — each length digit replaced by sign, '
        'space, underscore, NUL, EBCDIC/ASCII cross digits and superscript digits; whole prefixes and the MTI written in the other encoding family; lengths rewritten to point before, at and past '
        'the end; bitmap bits added/removed; truncation and extension by 1..3 bytes; the same raw text under different configurations with earlier calls in the same process (same dict edited in place, short-lived copies), a date text valid under another format only — under packaged and generated '
        'configurations, ASCII/EBCDIC codecs, binary/hex bitmap; judged against an independent strict reference decoder (accept) '
        'and an independent frame recomputation (tiling, value = content of own bytes); non-trivial = distinct input accepted by '
        'the implementation or by the reference decoder')
CODEC_ALIASES = True     # one implementation run in three is given an alias spelling of the codec name (worker.for_impl)
CALL_VARIANTS = True     # bytearray messages, positional arguments and earlier failing calls around the harness's loads / dumps calls (worker.install_call_variants)
EXHAUSTIVE = {}
ASSUMPTIONS = ['numerals that are not plain decimal digits are a don\'t-care for acceptance (they must still be framed exactly if accepted)',
               'leniency inside a PDS carrier (truncated last sub-element) is outside the statement, which is about elements']


THREADS = True


def thread_ok(case):
    return not case.get('warm')

def gen(rng, tier):
    cases = [{'cfg': None, 'codec': 'latin_1', 'hex': False,
              'bytes': (b'1144' + bytes.fromhex('60000000000000000000000000000000') + b'-21234').hex(), 'mut': 'witness'}]
    pk = iu.packaged()
    # crafted: a variable element declaring a negative length followed by a fixed element that would re-read the prefix
    for cfg_obj in [None] + [iu.gen_config(rng) for _ in range(6 if tier == 'quick' else 60)]:
        cfg = cfg_obj or pk
        bits = sorted(int(k) for k in cfg if 2 <= int(k) <= 127)
        for a, b2 in zip(bits, bits[1:]):
            ca, cb = cfg[str(a)], cfg[str(b2)]
            w = {'LLVAR': 2, 'LLLVAR': 3}.get(ca['field_type'], 0)
            if not w or cb['field_type'] != 'FIXED' or cb['field_length'] < w or cb.get('field_python_type') or ca.get('field_python_type') or ca.get('field_processor'):
                continue
            for codec in ('latin_1', 'cp500'):
                bm = bytearray(16)
                for bit in (a, b2):
                    bm[(bit - 1) // 8] |= 1 << (7 - (bit - 1) % 8)
                data = ('-%0*d' % (w - 1, w) + 'Z' * (cb['field_length'] - w)).encode(codec)
                cases.append({'cfg': cfg_obj, 'codec': codec, 'hex': False, 'bytes': ('1144'.encode(codec) + bytes(bm) + data).hex(), 'mut': 'negative-length'})
    # every variable element at the top of its range (the frame must be exactly its declared bytes)
    for cfg_obj in [None, iu.gen_config(rng, allbits=True)]:
        cfg = cfg_obj or pk
        for k, c in sorted(cfg.items(), key=lambda kc: int(kc[0])):
            if c['field_type'] == 'FIXED' or c.get('field_python_type') or c.get('field_processor') in ('PDS', 'ICC'):
                continue
            vmax = 99 if c['field_type'] == 'LLVAR' else 999
            for n in (vmax, vmax - 1, vmax - 2, vmax - 3, vmax - 4):
                codec = rng.choice(['latin_1', 'cp500'])
                m = {'MTI': '1240', 'DE' + k: iu.rand_text(rng, codec, n)}
                try:
                    b = iu.ref_wire(m, cfg, codec, False)
                except (iu.Refused, UnicodeEncodeError):
                    continue
                cases.append({'cfg': cfg_obj, 'codec': codec, 'hex': False, 'bytes': b.hex(), 'mut': 'valid-long'})
    # the same raw text under different configurations, with earlier calls in the same process (caches, shared state)
    for cc in iu.collision_cases(rng, 60 if tier == 'quick' else 1500):
        try:
            b = iu.ref_wire(iu.dict_of_text(cc['msg']), cc['cfg'], cc['codec'], cc['hex'])
            warm = [dict(cfg=w['cfg'], codec=w['codec'], hex=w['hex'], how=w.get('how', 'plain'),
                         bytes=iu.ref_wire(iu.dict_of_text(w['msg']), w['cfg'], w['codec'], w['hex']).hex()) for w in cc.get('warm', [])]
        except (iu.Refused, UnicodeEncodeError):
            continue
        cases.append({'cfg': cc['cfg'], 'codec': cc['codec'], 'hex': cc['hex'], 'bytes': b.hex(), 'mut': 'collision', 'warm': warm})
    # a date text that converts under one format only: decoded first under that format (accepted), then - the case itself -
    # under a format of the same width for which it is not a date (must be refused)
    for i in range(40 if tier == 'quick' else 800):
        codec = rng.choice(['latin_1', 'cp500', 'ascii', 'cp037'])
        bit = rng.randrange(2, 65)
        good, bad_, digits = rng.choice([('%y%m%d', '%d%m%y', '%02d%02d%02d' % (rng.randint(32, 99), rng.randint(1, 12), rng.randint(13, 28))),
                                         ('%d%m%y', '%y%m%d', '%02d%02d%02d' % (rng.randint(13, 28), rng.randint(1, 12), rng.randint(32, 99))),
                                         ('%H%M%S', '%y%m%d', '%02d%02d%02d' % (rng.randint(0, 23), rng.randint(13, 59), rng.randint(32, 59))),
                                         ('%m%d', '%H%M', '%02d%02d' % (rng.randint(1, 12), rng.randint(24, 28)))])
        mk = lambda f: {str(bit): {'field_name': 'd', 'field_type': 'FIXED', 'field_length': len(digits), 'field_python_type': 'datetime', 'field_date_format': f}}
        bm = bytearray(16)
        bm[(bit - 1) // 8] |= 1 << (7 - (bit - 1) % 8)
        b = '1144'.encode(codec) + bytes(bm) + digits.encode(codec)
        cases.append({'cfg': mk(bad_), 'codec': codec, 'hex': False, 'bytes': b.hex(), 'mut': 'date-other-format',
                      'warm': [{'cfg': mk(good), 'codec': codec, 'hex': False, 'bytes': b.hex(), 'how': ['plain', 'inplace', 'fresh'][i % 3]}]})
    nb = 140 if tier == 'quick' else 2000
    for i in range(nb):
        codec = ['latin_1', 'cp500', 'ascii', 'cp037', 'cp1252', 'cp875'][i % 6]
        hexbm = i % 4 == 3
        cfg = None if i % 3 else iu.gen_config(rng)
        m = iu.rand_message(rng, cfg or pk, codec, nbits=rng.choice([1, 2, 3, 5, 9]))
        for k, v in list(m.items()):
            if isinstance(v, str) and len(v) > 60 and k != 'MTI':
                c = (cfg or pk).get(k[2:]) if k.startswith('DE') else None
                if c is None or c['field_type'] != 'FIXED':
                    m[k] = v[:rng.choice([1, 9, 10, 30])]
        try:
            b = iu.ref_wire(m, cfg or pk, codec, hexbm)
        except (iu.Refused, UnicodeEncodeError):
            continue
        base = {'cfg': cfg, 'codec': codec, 'hex': hexbm}
        cases.append(dict(base, bytes=b.hex(), mut='valid'))
        ms = iu.marks(b, cfg or pk, codec, hexbm)
        alpha = iu.alphabet(codec)
        for kind, o in ms:
            if kind == 'prefix':
                for v in alpha:
                    if v != b[o]:
                        cases.append(dict(base, bytes=(b[:o] + bytes([v]) + b[o + 1:]).hex(), mut='prefix-digit'))
        # rewrite whole prefixes: lengths before / at / past the end
        fr = iu.ref_frames(b, cfg or pk, codec, hexbm, strict=True)
        if fr:
            hdr = 36 if hexbm else 20
            for n, off, w, ln in fr[2]:
                if not w:
                    continue
                rest = len(b) - hdr - off - w
                for new in {0, 1, max(0, ln - 1), ln + 1, rest, rest + 1, max(0, rest - 1), 10 ** w - 1}:
                    try:
                        p = ('%0*d' % (w, new)).encode(codec)
                    except UnicodeEncodeError:
                        continue
                    if len(p) == w:
                        cases.append(dict(base, bytes=(b[:hdr + off] + p + b[hdr + off + w:]).hex(), mut='prefix-value'))
                # the WHOLE prefix (same declared length) written with the digits of the other encoding family: under the
                # message's encoding those bytes are not a numeral, so the message is not well framed
                other = 'cp500' if codec in iu.ASCII_CODECS else 'latin_1'
                p = ('%0*d' % (w, ln)).encode(other)
                cases.append(dict(base, bytes=(b[:hdr + off] + p + b[hdr + off + w:]).hex(), mut='cross-prefix'))
            other = 'cp500' if codec in iu.ASCII_CODECS else 'latin_1'
            cases.append(dict(base, bytes=(b[:4].decode(codec).encode(other) + b[4:]).hex(), mut='cross-mti'))
        # bitmap bits added / removed
        bm_off = 4
        for _ in range(6):
            bit = rng.randrange(1, 129)
            if hexbm:
                bm = bytearray(bytes.fromhex(b[4:36].decode('ascii')))
                bm[(bit - 1) // 8] ^= 1 << (7 - (bit - 1) % 8)
                nb_ = b[:4] + bm.hex().encode('ascii') + b[36:]
            else:
                nb_ = bytearray(b)
                nb_[bm_off + (bit - 1) // 8] ^= 1 << (7 - (bit - 1) % 8)
                nb_ = bytes(nb_)
            cases.append(dict(base, bytes=nb_.hex(), mut='bitmap-bit'))
        for d in (1, 2, 3):
            cases.append(dict(base, bytes=b[:-d].hex(), mut='truncated'))
            cases.append(dict(base, bytes=(b + bytes(rng.randrange(256) for _ in range(d))).hex(), mut='extended'))
        for _ in range(4):
            cases.append(dict(base, bytes=iu.mutate(rng, b).hex(), mut='multi'))
        if hexbm:
            for bb in iu.hex_bitmap_blanks(rng, b):
                cases.append(dict(base, bytes=bb.hex(), mut='bitmap-blanks'))
    return cases


def impl(case):
    from cardutil import iso8583
    b = bytes.fromhex(case['bytes'])
    cfg = iu.run_warm(case, lambda w, c: iso8583.loads(bytes.fromhex(w['bytes']), encoding=w['codec'], iso_config=c, hex_bitmap=w['hex']))
    return {'out': outcome(lambda: iso8583.loads(b, encoding=case['codec'], iso_config=cfg, hex_bitmap=case['hex']), iu.dict_text)}


def model_lines(case, io_):
    return ['loads %s %s %s %s' % (iu.cfg_text(case['cfg']), iu.hs(case['codec']), '1' if case['hex'] else '0', case['bytes'] or '-')]


def substructure_ok(d, cfg):
    for k, v in d.items():
        if k == 'MTI':
            continue
        p = cfg[k[2:]].get('field_processor')
        if p == 'PDS' and iu.ref_pds_walk(v) is None:
            return False
        if p == 'ICC' and iu.ref_tlv_walk(v) is None:
            return False
    return True


def judge(case, io_, mo):
    ps = []
    cfg = case['cfg'] if case['cfg'] is not None else iu.packaged()
    b = bytes.fromhex(case['bytes'])
    o = io_['out']
    accepted = o.startswith('OK ')
    if accepted:
        got = iu.dict_of_text(o[3:])
        lenient = iu.ref_loads(b, cfg, case['codec'], case['hex'], strict=False)
        if lenient is None:
            ps.append({'kind': 'oracle', 'sig': 'accepted-but-not-tiled', 'msg': 'accepted, but the flagged elements with their declared lengths do not tile the message (or a value is not convertible)'})
        else:
            for k, v in lenient.items():
                if got.get(k) != v or type(got.get(k)) is not type(v):
                    ps.append({'kind': 'oracle', 'sig': 'value-not-content-of-own-bytes', 'msg': '%s = %r but its own bytes carry %r' % (k, got.get(k), v)})
                    break
    strict = iu.ref_loads(b, cfg, case['codec'], case['hex'], strict=True)
    if strict is not None and substructure_ok(strict, cfg) and not accepted:
        ps.append({'kind': 'oracle', 'sig': 'well-framed-message-rejected', 'msg': 'a well-framed message with decodable, convertible values is rejected: %s' % o})
    if not accepted and o != 'RAISE DATAERR':
        ps.append({'kind': 'oracle', 'sig': 'rejected-with-' + o.split(' ')[-1], 'msg': 'rejected with %s' % o})
    if mo is not None and not ps and not mo[0].startswith('UNMODELLED'):
        same = (mo[0] == o) if not accepted else (mo[0].startswith('OK ') and iu.canon_entries(mo[0][3:], drop_other=True) == iu.canon_entries(o[3:], drop_other=True))
        if not same:
            ps.append({'kind': 'corr', 'sig': 'loads', 'msg': 'loads differs from model: %s vs %s' % (o[:150], mo[0][:150])})
    return ps


def nontrivial(case, io_):
    return io_.get('out', '').startswith('OK ') or case['mut'] in ('valid', 'valid-long', 'prefix-digit', 'prefix-value', 'cross-prefix', 'cross-mti', 'collision', 'date-other-format')


def label(case):
    return '%s/%s/%s' % (case['mut'], 'packaged' if case['cfg'] is None else 'generated', 'hex' if case['hex'] else 'bin')
