"""C09 — a file cut short at any byte yields only its complete records, then stops or raises the data error."""
import io
from util import hb
from props.framing import (B, BLK, hlist, block_ref, vbs_ref, read_all_impl, rend_text, record_content)

ID = 'C09'
RULE = ('generated VBS and blocked-VBS files (1..12 records, lengths around 1, 1008, 1012, 2024 and 6000) cut at byte offsets: '
        'every offset for small files, every offset within 12 bytes of a record start/end, block boundary or the end plus a '
        'random sample for large ones (thorough: every offset of more files); also files without terminator (writer killed '
        'before close); non-trivial = distinct (file, cut) with cut < len(file)')
EXHAUSTIVE = {}
ASSUMPTIONS = ['IPM-level truncation (decoded records) is covered by C06/C10 over the same reader']


def gen(rng, tier):
    cases = []
    shapes = [[1], [5, 3], [1, 1, 1, 1], [1008], [1004, 1, 8], [1012, 1012], [2020, 4], [300] * 12, [6000], [1500, 2500, 40]]
    if tier == 'thorough':
        shapes += [[rng.choice([1, 2, 1004, 1008, 1012, rng.randrange(1, 2500)]) for _ in range(rng.choice([1, 2, 4, 7]))] for _ in range(14)]
    for si, lens in enumerate(shapes):
        seed = rng.randrange(1 << 30)
        for blocked in (False, True):
            for closed in (True, False):
                if blocked and not closed:
                    continue
                rs = recs({'lens': lens, 'seed': seed})
                stream = vbs_ref(rs) if closed else vbs_ref(rs)[:-4]
                f = block_ref(stream) if blocked else stream
                n = len(f)
                if n <= 700 or (tier == 'thorough' and si % 3 == 0):
                    cuts = range(0, n + 1)
                else:
                    marks = {0, n}
                    pos = 0
                    for r in rs:
                        for m in (pos, pos + 4, pos + 4 + len(r)):
                            pm = m + 2 * (m // B) if blocked else m
                            marks.add(pm)
                        pos += 4 + len(r)
                    marks |= {b for b in range(0, n + 1, BLK)} | {b + B for b in range(0, n, BLK)} if blocked else set()
                    cuts = sorted({m + d for m in marks for d in range(-12, 13) if 0 <= m + d <= n} | {rng.randrange(n + 1) for _ in range(60 if tier == 'quick' else 600)})
                for c in cuts:
                    cases.append({'lens': lens, 'seed': seed, 'blocked': blocked, 'closed': closed, 'cut': c})
    return cases


def recs(case):
    import random
    r = random.Random(case['seed'])
    return [record_content(r, n) for n in case['lens']]


def the_file(case):
    rs = recs(case)
    stream = vbs_ref(rs) if case['closed'] else vbs_ref(rs)[:-4]
    f = block_ref(stream) if case['blocked'] else stream
    return rs, f[:case['cut']]


def impl(case):
    rs, f = the_file(case)
    r, e = read_all_impl(f, case['blocked'])
    return {'out': rend_text(r, e)}


def model_lines(case, io_):
    rs, f = the_file(case)
    return ['vbs_read %s %s' % ('1' if case['blocked'] else '0', hb(f))]


def judge(case, io_, mo):
    rs, f = the_file(case)
    k = case['cut']
    surv = (k // BLK) * B + min(k % BLK, B) if case['blocked'] else k       # surviving payload bytes
    want, pos = [], 0
    for r in rs:
        if pos + 4 + len(r) <= surv:
            want.append(r)
            pos += 4 + len(r)
        else:
            break
    out = io_['out']
    head, _, end = out.partition('|')
    ps = []
    if head != 'OK ' + hlist(want):
        ps.append({'kind': 'oracle', 'sig': 'records-not-the-complete-ones', 'msg': 'cut at %d: %d records expected, got %s' % (k, len(want), head[:80])})
    elif not (end == 'END' or end.startswith('ERR:')):
        ps.append({'kind': 'oracle', 'sig': 'stops-with-' + end.split(':')[-1], 'msg': 'cut at %d: reading ended with %s' % (k, end)})
    elif mo is not None and mo[0] != out:
        ps.append({'kind': 'corr', 'sig': 'vbs_read', 'msg': 'VbsReader differs from model read_all at cut %d: %s vs %s' % (k, out[-60:], mo[0][-60:])})
    return ps


def nontrivial(case, io_):
    return True


def label(case):
    return '%s/%s/records=%d' % ('1014' if case['blocked'] else 'vbs', 'closed' if case['closed'] else 'unterminated', min(len(case['lens']), 5))
