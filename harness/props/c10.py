"""C10 — a bad record is reported with its own record number and raw bytes."""
import contextlib
import io
from util import hb, exc_class
import isoutil as iu
from props.framing import block_ref, in_stream

ID = 'C10'
RULE = ('files of n = 1..8 records x every position k of the bad record x fault kind {truncated record, length above the maximum, '
        'undecodable MTI, unconfigured bitmap bit, bad field length, bad typed value, bad PDS sub-length, TLV tag at end of field} '
        'x {VBS, 1014} x {latin_1, cp500} x consumption style {one for-loop, next() then a loop, islice batches}; plus files with SEVERAL bad records read by a consumer that keeps the reader after each data error (every bad record must be reported under its own number, framing faults after them too); observed: records before the error, record_number, binary_context_data and the '
        'operator message printed by print_exception_details; non-trivial = distinct case with k >= 2')
EXHAUSTIVE = {'quick': False, 'thorough': False}
ASSUMPTIONS = []
FAULTS = ['truncated', 'oversize', 'mti', 'bit', 'fieldlen', 'typed', 'pds', 'icc', 'supdigit', 'supdigit-pds', 'arabic-typed']


def bm(bits):
    b = bytearray(16)
    for bit in bits:
        b[(bit - 1) // 8] |= 1 << (7 - (bit - 1) % 8)
    return bytes(b)


def bad_record(kind, codec):
    e = lambda s: s.encode(codec)
    if kind == 'mti':
        return e('11x4') + bm([1, 3]) + e('123456')
    if kind == 'bit':
        return e('1144') + bm([1, 7]) + e('123456')            # DE7 has no configuration
    if kind == 'fieldlen':
        return e('1144') + bm([1, 2]) + e('x6123456')
    if kind == 'typed':
        return e('1144') + bm([1, 4]) + e('00000000abcd')
    if kind == 'pds':
        return e('1144') + bm([1, 48]) + e('0100001abc123')
    if kind == 'icc':
        return e('1144') + bm([1, 55]) + e('001') + b'\x82'
    if kind == 'supdigit':
        # a length prefix holding a SUPERSCRIPT digit: str.isdigit() says yes, int() says no
        return e('1144') + bm([1, 2]) + e('1\u00b2123456789012')
    if kind == 'supdigit-pds':
        return e('1144') + bm([1, 48]) + e('010') + e('000100\u00b3abc')
    if kind == 'arabic-typed':
        # digits of another script in a numeric element are not the library's problem to refuse or accept differently from
        # int(): here a character the codec has but int() does not take
        return e('1144') + bm([1, 4]) + e('00000000\u00bd123')
    raise ValueError(kind)


def gen(rng, tier):
    cases = []
    pk = iu.packaged()
    ns = [1, 2, 3, 5, 8] if tier == 'quick' else list(range(1, 9))
    for n in ns:
        for k in range(1, n + 1):
            for kind in FAULTS:
                for blocked in (False, True):
                    for codec in (('latin_1', 'cp500') if tier != 'quick' or (n + k) % 2 else ('latin_1',) if k % 2 else ('cp500',)):
                        good = [iu.ref_wire(iu.rand_message_fit(rng, pk, codec, nbits=rng.choice([1, 3, 7])), pk, codec, False) for _ in range(n)]
                        if kind == 'truncated' and len(cases) % 2:
                            # the record that will be cut short ends in a run of 0x40 (EBCDIC blanks / '@'): what can be read
                            # of it then ends in the very bytes a block trailer consists of
                            pad = ' ' if codec == 'cp500' else '@'
                            good[k - 1] = iu.ref_wire({'MTI': '1240', 'DE2': '5' * 16, 'DE43': 'A' + pad * rng.randint(30, 90)}, pk, codec, False)
                        cases.append({'codec': codec, 'blocked': blocked, 'kind': kind, 'k': k, 'good': [g.hex() for g in good],
                                      'style': ['loop', 'next-then-loop', 'batches'][(n + k + len(cases)) % 3],
                                      'cut': rng.randrange(1, 20), 'big': rng.choice([6001, 6002, 70000, 0x40404040, 0xffffffff])})
    # blocked files cut short INSIDE THEIR SECOND BLOCK (what is left is between 1014 and 2028 bytes: too short for an
    # inspection of the file to see the second trailer), always through the tools as well
    for codec in ('latin_1', 'cp500'):
        for sizes in ((600, 500), (1100,), (300, 300, 500), (990, 40)):
            good = [iu.ref_wire(iu.sized_message(rng, n), pk, codec, False) for n in sizes] + [iu.ref_wire(iu.sized_message(rng, 400), pk, codec, False)]
            cases.append({'codec': codec, 'blocked': True, 'kind': 'truncated', 'k': len(good), 'good': [g.hex() for g in good], 'style': 'loop',
                          'cut': rng.randrange(1, 200), 'big': 6001, 'tools': True})
    # resilient consumers: several bad records in one file, the consumer keeps the reader after each data error
    for i in range(180 if tier == 'quick' else 9000):
        codec = rng.choice(['latin_1', 'cp500'])
        n = rng.choice([2, 3, 4, 6, 9])
        slots = []
        for j in range(n):
            if rng.random() < 0.45:
                slots.append(['bad', rng.choice([k for k in FAULTS if k not in ('truncated', 'oversize')])])
            else:
                slots.append(['good', iu.ref_wire(iu.rand_message_fit(rng, pk, codec, nbits=rng.choice([1, 3, 7])), pk, codec, False).hex()])
        if not any(sl[0] == 'bad' for sl in slots):
            slots[rng.randrange(n)] = ['bad', 'bit']
        cases.append({'style': 'resilient', 'codec': codec, 'blocked': rng.random() < 0.5, 'slots': slots,
                      'tail': rng.choice([None, None, 'truncated', 'oversize', 'noterm']), 'cut': rng.randrange(1, 20),
                      'big': rng.choice([6001, 70000, 0x40404040]), 'kind': 'resilient', 'k': 1 + min(j for j, sl in enumerate(slots) if sl[0] == 'bad'), 'good': []})
    return cases


def build_resilient(case):
    """file bytes and, per record slot, (is_good, raw frame)"""
    stream = b''
    frames = []
    for kind, x in case['slots']:
        r = bytes.fromhex(x) if kind == 'good' else bad_record(x, case['codec'])
        fr = len(r).to_bytes(4, 'big') + r
        frames.append((kind == 'good', fr))
        stream += fr
    tail = case.get('tail')
    extra = None
    if tail == 'truncated':
        r = bad_record('bit', case['codec']) * 3
        extra = len(r).to_bytes(4, 'big') + r[:max(0, len(r) - case['cut'])]
        stream += extra
    elif tail == 'oversize':
        extra = case['big'].to_bytes(4, 'big')
        stream += extra + b'\x00\x00\x00\x00'
    elif tail != 'noterm':
        stream += b'\x00\x00\x00\x00'
    if case['blocked']:
        if tail == 'truncated':
            n = len(stream)
            return block_ref(stream + b'\x00' * 8)[:n + 2 * (n // 1012)], frames, extra
        return block_ref(stream), frames, extra
    return stream, frames, extra


def impl_resilient(case):
    from cardutil import mciipm, iso8583, CardutilError
    f, frames, extra = build_resilient(case)
    ev = []
    res = {}
    try:
        reader = mciipm.IpmReader(in_stream(f, case['blocked']), encoding=case['codec'], blocked=case['blocked'])
        for _ in range(len(f) // 4 + 8):
            try:
                ev.append('R' + (iu.dict_text(next(reader)) or '~'))
            except StopIteration:
                res['end'] = 'END'
                break
            except mciipm.MciIpmDataError as ex:
                ev.append('E%s:%s' % (ex.record_number, (ex.binary_context_data or b'').hex() or '-'))
        else:
            res['end'] = 'NOEND'
    except Exception as ex:
        res['end'] = exc_class(ex)
    res['events'] = ev
    res['solo'] = [iu.dict_text(iso8583.loads(fr[4:], encoding=case['codec'])) if good else None for good, fr in frames]
    return res


def build(case):
    """file bytes, raw bytes of the bad record as the reader can see them"""
    recs = [bytes.fromhex(g) for g in case['good']]
    k, kind = case['k'], case['kind']
    stream = b''
    ctx = None
    for i, r in enumerate(recs, 1):
        if i < k:
            stream += len(r).to_bytes(4, 'big') + r
            continue
        if kind == 'truncated':
            part = r[:max(0, len(r) - case['cut'])]
            ctx = len(r).to_bytes(4, 'big') + part
            stream += ctx
            if case['blocked']:
                # an interrupted transfer of a blocked file: the file ends where the payload ends (no fill)
                n = len(stream)
                whole = block_ref(stream + r[len(part):] + b'\x00\x00\x00\x00')
                return whole[:n + 2 * (n // 1012)], ctx, True
            return stream, ctx, True
        if kind == 'oversize':
            ctx = case['big'].to_bytes(4, 'big')
            stream += ctx + r
        else:
            bad = bad_record(kind, case['codec'])
            ctx = len(bad).to_bytes(4, 'big') + bad
            stream += ctx
        for r2 in recs[i:]:
            stream += len(r2).to_bytes(4, 'big') + r2
        break
    stream += b'\x00\x00\x00\x00'
    return (block_ref(stream) if case['blocked'] else stream), ctx, False


def impl(case):
    from cardutil import mciipm, iso8583
    from cardutil.cli import print_exception_details
    if case.get('style') == 'resilient':
        return impl_resilient(case)
    f, ctx, _ = build(case)
    recs = []
    res = {}
    try:
        reader = mciipm.IpmReader(in_stream(f, case['blocked']), encoding=case['codec'], blocked=case['blocked'])
        style = case.get('style', 'loop')
        if style == 'next-then-loop':          # read a header record with next(), then loop over the rest
            try:
                recs.append(iu.dict_text(next(reader)))
            except StopIteration:
                pass
            for d in reader:
                recs.append(iu.dict_text(d))
        elif style == 'batches':               # pull the records in batches of two
            import itertools
            while True:
                got = 0
                for d in itertools.islice(reader, 2):
                    recs.append(iu.dict_text(d))
                    got += 1
                if got < 2:
                    break
        else:
            for d in reader:
                recs.append(iu.dict_text(d))
        res['end'] = 'END'
    except Exception as ex:
        res['end'] = exc_class(ex)
        if res['end'] == 'DATAERR':
            res['recno'] = ex.record_number
            res['ctx'] = (ex.binary_context_data or b'').hex()
            out = io.StringIO()
            with contextlib.redirect_stdout(out):
                print_exception_details(ex)
            res['printed'] = [l for l in out.getvalue().splitlines() if l.startswith('Error detected')]
            res['printed_full'] = out.getvalue()
    res['recs'] = recs
    res['solo'] = [iu.dict_text(iso8583.loads(bytes.fromhex(g), encoding=case['codec'])) for g in case['good'][:case['k'] - 1]]
    import zlib
    if zlib.crc32(f) % 3 == 0 or case.get('tools'):
        # the same file through the command line tools: what the conversion function raises, and what the extraction
        # command prints and writes before it stops (the blocking option given as the file is / left out for a blocked file)
        import os
        from cardutil.cli import mci_ipm_encode, mci_ipm_to_csv
        other = 'cp500' if case['codec'] == 'latin_1' else 'latin_1'
        fmt = '1014' if case['blocked'] else 'vbs'
        try:
            mci_ipm_encode.mci_ipm_encode(io.BytesIO(f), out_file=io.BytesIO(), in_encoding=case['codec'], out_encoding=other, in_format=fmt, out_format=fmt)
            res['enc'] = ['END']
        except Exception as ex:
            res['enc'] = [exc_class(ex), getattr(ex, 'record_number', None), (getattr(ex, 'binary_context_data', None) or b'').hex()]
        path = os.path.join(os.getcwd(), 'c10_%d.ipm' % os.getpid())
        with open(path, 'wb') as g:
            g.write(f)
        out = io.StringIO()
        try:
            with contextlib.redirect_stdout(out):
                args = [path, '-o', path + '.csv', '--in-encoding', case['codec']] + ([] if case['blocked'] else ['--no1014blocking'])
                rc = mci_ipm_to_csv.cli_run(**vars(mci_ipm_to_csv.cli_parser().parse_args(args)))
            res['csv'] = {'rc': rc, 'printed': [l for l in out.getvalue().splitlines() if l.startswith('Error detected')],
                          'same_details': bool(res.get('printed_full')) and res['printed_full'] in out.getvalue()}
        except Exception as ex:
            res['csv'] = {'rc': 'RAISE ' + exc_class(ex)}
        finally:
            for q in (path, path + '.csv'):
                if os.path.exists(q):
                    os.unlink(q)
    return res


def model_lines(case, io_):
    if case.get('style') == 'resilient':
        f, _, _ = build_resilient(case)
        return ['ipm_events packaged %s %s %s' % (iu.hs(case['codec']), '1' if case['blocked'] else '0', hb(f))]
    f, _, _ = build(case)
    return ['ipm_read packaged %s %s %s' % (iu.hs(case['codec']), '1' if case['blocked'] else '0', hb(f))]


def judge_resilient(case, io_, mo):
    ps = []
    f, frames, extra = build_resilient(case)
    ev = io_.get('events', [])
    if io_.get('end') not in ('END',):
        return [{'kind': 'oracle', 'sig': 'resilient-consumer-' + str(io_.get('end')), 'msg': 'a consumer that keeps reading after each data error ended with %s' % io_.get('end')}]
    for k, ((good, fr), solo) in enumerate(zip(frames, io_['solo']), 1):
        got = ev[k - 1] if k <= len(ev) else None
        want = ('R' + (solo or '~')) if good else 'E%d:%s' % (k, fr.hex())
        if got != want:
            ps.append({'kind': 'oracle', 'sig': 'resilient-' + ('record-changed' if good else 'wrong-record-number-or-context'),
                       'msg': 'record %d of a file with several bad records: expected %s, the reader gave %s' % (k, want[:60], str(got)[:60])})
            break
    if not ps and case.get('tail') in ('truncated', 'oversize'):
        k = len(frames) + 1
        got = ev[k - 1] if k <= len(ev) else None
        if got != 'E%d:%s' % (k, extra.hex()):
            ps.append({'kind': 'oracle', 'sig': 'resilient-frame-fault', 'msg': 'framing fault in record %d after earlier bad records reported as %s' % (k, str(got)[:60])})
    if mo is not None and not ps and not mo[0].startswith('UNMODELLED'):
        mev = [] if mo[0] == 'OK -' else mo[0][3:].split('/')
        canon = lambda e: ('R' + repr(sorted(iu.canon_entries(e[1:], drop_other=True).items()))) if e.startswith('R') else e
        if not mo[0].startswith('OK ') or [canon(e) for e in mev] != [canon(e) for e in ev]:
            ps.append({'kind': 'corr', 'sig': 'ipm_events', 'msg': 'event list differs from model: %s vs %s' % (str(ev)[:100], mo[0][:100])})
    return ps


def judge(case, io_, mo):
    if case.get('style') == 'resilient':
        return judge_resilient(case, io_, mo)
    ps = []
    f, ctx, trunc = build(case)
    k = case['k']
    if io_['end'] != 'DATAERR':
        return [{'kind': 'oracle', 'sig': 'no-data-error-' + case['kind'], 'msg': 'bad record %d (%s): iteration ended with %s' % (k, case['kind'], io_['end'])}]
    if io_['recs'] != io_['solo']:
        ps.append({'kind': 'oracle', 'sig': 'records-before-error', 'msg': '%d records delivered before the error, expected the %d good ones unchanged' % (len(io_['recs']), k - 1)})
    if io_['recno'] != k:
        ps.append({'kind': 'oracle', 'sig': 'wrong-record-number-' + ('frame' if case['kind'] in ('truncated', 'oversize') else 'message'),
                   'msg': 'fault %s in record %d reported as record %s' % (case['kind'], k, io_['recno'])})
    if io_['ctx'] != ctx.hex():
        ps.append({'kind': 'oracle', 'sig': 'wrong-context-bytes', 'msg': 'context data is not the raw bytes of record %d (or what could be read of it)' % k})
    if io_.get('printed') != ['Error detected in record %d' % k]:
        ps.append({'kind': 'oracle', 'sig': 'operator-message', 'msg': 'operator message %s' % io_.get('printed')})
    if not ps and 'enc' in io_ and case['kind'] not in ('pds', 'supdigit-pds') and io_['enc'] != ['DATAERR', k, ctx.hex()]:
        # (the conversion reads without PDS expansion, so a fault inside the PDS data is none for it)
        ps.append({'kind': 'oracle', 'sig': 'conversion-tool-error-report', 'msg': 'mci_ipm_encode on the same file reports %s, the reader record %d with its raw bytes' % (str(io_['enc'])[:80], k)})
    if not ps and 'csv' in io_ and (io_['csv'].get('printed') != ['Error detected in record %d' % k] or not io_['csv'].get('same_details')):
        ps.append({'kind': 'oracle', 'sig': 'extraction-command-report', 'msg': 'mci_ipm_to_csv on the same file: %s; expected the operator message for record %d with the details (raw bytes) the reader reports' % (str(io_['csv'])[:120], k)})
    if mo is not None and not ps and not mo[0].startswith('UNMODELLED'):
        end = mo[0].rpartition('|')[2]
        if end != 'ERR:%d:%s' % (io_['recno'], io_['ctx'] or '-'):
            ps.append({'kind': 'corr', 'sig': 'ipm_read', 'msg': 'error report differs from model: %s vs ERR:%s:%s' % (end[:60], io_['recno'], io_['ctx'][:40])})
    return ps


def nontrivial(case, io_):
    if case.get('style') == 'resilient':
        return sum(1 for sl in case['slots'] if sl[0] == 'bad') >= 2
    return case['k'] >= 2


def label(case):
    if case.get('style') == 'resilient':
        return 'resilient/%s/%s/bad=%d/tail=%s' % ('1014' if case['blocked'] else 'vbs', case['codec'], sum(1 for sl in case['slots'] if sl[0] == 'bad'), case.get('tail'))
    return '%s/%s/%s/%s/n=%d' % (case['kind'], '1014' if case['blocked'] else 'vbs', case['codec'], case.get('style', 'loop'), len(case['good']))
