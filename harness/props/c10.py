"""C10 — a bad record is reported with its own record number and raw bytes."""
import contextlib
import io
from util import hb, exc_class
import isoutil as iu
from props.framing import block_ref

ID = 'C10'
RULE = ('files of n = 1..8 records x every position k of the bad record x fault kind {truncated record, length above the maximum, '
        'undecodable MTI, unconfigured bitmap bit, bad field length, bad typed value, bad PDS sub-length, TLV tag at end of field} '
        'x {VBS, 1014} x {latin_1, cp500} x consumption style {one for-loop, next() then a loop, islice batches}; observed: records before the error, record_number, binary_context_data and the '
        'operator message printed by print_exception_details; non-trivial = distinct case with k >= 2')
EXHAUSTIVE = {'quick': False, 'thorough': False}
ASSUMPTIONS = []
FAULTS = ['truncated', 'oversize', 'mti', 'bit', 'fieldlen', 'typed', 'pds', 'icc']


def bm(bits):
    b = bytearray(16)
    for bit in bits:
        b[(bit - 1) // 8] |= 1 << (7 - (bit - 1) % 8)
    return bytes(b)


def bad_record(kind, codec):
    e = lambda s: s.encode(codec)
    if kind == 'mti':
        return e('11x4') + bm([1, 3]) + e('123456')
    if kind == 'bit':
        return e('1144') + bm([1, 7]) + e('123456')            # DE7 has no configuration
    if kind == 'fieldlen':
        return e('1144') + bm([1, 2]) + e('x6123456')
    if kind == 'typed':
        return e('1144') + bm([1, 4]) + e('00000000abcd')
    if kind == 'pds':
        return e('1144') + bm([1, 48]) + e('0100001abc123')
    if kind == 'icc':
        return e('1144') + bm([1, 55]) + e('001') + b'\x82'
    raise ValueError(kind)


def gen(rng, tier):
    cases = []
    pk = iu.packaged()
    ns = [1, 2, 3, 5, 8] if tier == 'quick' else list(range(1, 9))
    for n in ns:
        for k in range(1, n + 1):
            for kind in FAULTS:
                for blocked in (False, True):
                    for codec in (('latin_1', 'cp500') if tier != 'quick' or (n + k) % 2 else ('latin_1',) if k % 2 else ('cp500',)):
                        good = [iu.ref_wire(iu.rand_message(rng, pk, codec, nbits=rng.choice([1, 3, 7])), pk, codec, False) for _ in range(n)]
                        cases.append({'codec': codec, 'blocked': blocked, 'kind': kind, 'k': k, 'good': [g.hex() for g in good],
                                      'style': ['loop', 'next-then-loop', 'batches'][(n + k + len(cases)) % 3],
                                      'cut': rng.randrange(1, 20), 'big': rng.choice([6001, 6002, 70000, 0x40404040, 0xffffffff])})
    return cases


def build(case):
    """file bytes, raw bytes of the bad record as the reader can see them"""
    recs = [bytes.fromhex(g) for g in case['good']]
    k, kind = case['k'], case['kind']
    stream = b''
    ctx = None
    for i, r in enumerate(recs, 1):
        if i < k:
            stream += len(r).to_bytes(4, 'big') + r
            continue
        if kind == 'truncated':
            part = r[:max(0, len(r) - case['cut'])]
            ctx = len(r).to_bytes(4, 'big') + part
            stream += ctx
            if case['blocked']:
                # an interrupted transfer of a blocked file: the file ends where the payload ends (no fill)
                n = len(stream)
                whole = block_ref(stream + r[len(part):] + b'\x00\x00\x00\x00')
                return whole[:n + 2 * (n // 1012)], ctx, True
            return stream, ctx, True
        if kind == 'oversize':
            ctx = case['big'].to_bytes(4, 'big')
            stream += ctx + r
        else:
            bad = bad_record(kind, case['codec'])
            ctx = len(bad).to_bytes(4, 'big') + bad
            stream += ctx
        for r2 in recs[i:]:
            stream += len(r2).to_bytes(4, 'big') + r2
        break
    stream += b'\x00\x00\x00\x00'
    return (block_ref(stream) if case['blocked'] else stream), ctx, False


def impl(case):
    from cardutil import mciipm, iso8583
    from cardutil.cli import print_exception_details
    f, ctx, _ = build(case)
    recs = []
    res = {}
    try:
        reader = mciipm.IpmReader(io.BytesIO(f), encoding=case['codec'], blocked=case['blocked'])
        style = case.get('style', 'loop')
        if style == 'next-then-loop':          # read a header record with next(), then loop over the rest
            try:
                recs.append(iu.dict_text(next(reader)))
            except StopIteration:
                pass
            for d in reader:
                recs.append(iu.dict_text(d))
        elif style == 'batches':               # pull the records in batches of two
            import itertools
            while True:
                got = 0
                for d in itertools.islice(reader, 2):
                    recs.append(iu.dict_text(d))
                    got += 1
                if got < 2:
                    break
        else:
            for d in reader:
                recs.append(iu.dict_text(d))
        res['end'] = 'END'
    except Exception as ex:
        res['end'] = exc_class(ex)
        if res['end'] == 'DATAERR':
            res['recno'] = ex.record_number
            res['ctx'] = (ex.binary_context_data or b'').hex()
            out = io.StringIO()
            with contextlib.redirect_stdout(out):
                print_exception_details(ex)
            res['printed'] = [l for l in out.getvalue().splitlines() if l.startswith('Error detected')]
    res['recs'] = recs
    res['solo'] = [iu.dict_text(iso8583.loads(bytes.fromhex(g), encoding=case['codec'])) for g in case['good'][:case['k'] - 1]]
    return res


def model_lines(case, io_):
    f, _, _ = build(case)
    return ['ipm_read packaged %s %s %s' % (iu.hs(case['codec']), '1' if case['blocked'] else '0', hb(f))]


def judge(case, io_, mo):
    ps = []
    f, ctx, trunc = build(case)
    k = case['k']
    if io_['end'] != 'DATAERR':
        return [{'kind': 'oracle', 'sig': 'no-data-error-' + case['kind'], 'msg': 'bad record %d (%s): iteration ended with %s' % (k, case['kind'], io_['end'])}]
    if io_['recs'] != io_['solo']:
        ps.append({'kind': 'oracle', 'sig': 'records-before-error', 'msg': '%d records delivered before the error, expected the %d good ones unchanged' % (len(io_['recs']), k - 1)})
    if io_['recno'] != k:
        ps.append({'kind': 'oracle', 'sig': 'wrong-record-number-' + ('frame' if case['kind'] in ('truncated', 'oversize') else 'message'),
                   'msg': 'fault %s in record %d reported as record %s' % (case['kind'], k, io_['recno'])})
    if io_['ctx'] != ctx.hex():
        ps.append({'kind': 'oracle', 'sig': 'wrong-context-bytes', 'msg': 'context data is not the raw bytes of record %d (or what could be read of it)' % k})
    if io_.get('printed') != ['Error detected in record %d' % k]:
        ps.append({'kind': 'oracle', 'sig': 'operator-message', 'msg': 'operator message %s' % io_.get('printed')})
    if mo is not None and not ps and not mo[0].startswith('UNMODELLED'):
        end = mo[0].rpartition('|')[2]
        if end != 'ERR:%d:%s' % (io_['recno'], io_['ctx'] or '-'):
            ps.append({'kind': 'corr', 'sig': 'ipm_read', 'msg': 'error report differs from model: %s vs ERR:%s:%s' % (end[:60], io_['recno'], io_['ctx'][:40])})
    return ps


def nontrivial(case, io_):
    return case['k'] >= 2


def label(case):
    return '%s/%s/%s/%s/n=%d' % (case['kind'], '1014' if case['blocked'] else 'vbs', case['codec'], case.get('style', 'loop'), len(case['good']))
