"""C11 — closing a writer finalises the file exactly once, however close is reached (VbsWriter and IpmWriter)."""
import io
import itertools
import os
import tempfile
from util import hb, outcome
from props.framing import (B, hlist, vbs_ref, data_blocks, read_all_impl, rend_text, record_content)

ID = 'C11'
RULE = ('operation histories write^n fin^m, n in 0..3 (thorough 0..5), m in 1..4 (thorough 1..5), every sequence of '
        'finalisations drawn from {close(), bare context-manager exit, a further `with writer: pass` block} exhaustively, for VbsWriter and IpmWriter, blocked and '
        'unblocked, on io.BytesIO and on real files in a private temporary directory; non-trivial = distinct history with '
        'at least one record or two finalisations; plus random histories in which the caller moves the wrapped file object (seek) calls write_many with an empty batch, or leaves a with-block through an exception, between finalisations')
EXHAUSTIVE = {'quick': True, 'thorough': True}
ASSUMPTIONS = ['writes after a close and closing the wrapped file object directly are outside the property']
MSG = {'MTI': '1144', 'DE2': '4444555566667777', 'DE3': '111111', 'DE4': 9999, 'DE48': '0002003abc'}


def gen(rng, tier):
    cases = []
    nmax, mmax = (3, 3) if tier == 'quick' else (4, 5)
    for n in range(0, nmax + 1):
        for m in range(1, mmax + 1):
            for fins in itertools.product('CXR', repeat=m):
                for blocked in (False, True):
                    for cls in ('vbs', 'ipm'):
                        for medium in ('mem', 'disk'):
                            if medium == 'disk' and (m > 3 or n > 2):
                                continue
                            lens = [[5], [1010, 3], [1004, 1008, 7], [1, 2, 3, 4, 5][:n]][min(n, 3)][:n] if n else []
                            lens = (lens + [17] * n)[:n]
                            cases.append({'cls': cls, 'lens': lens, 'fins': ''.join(fins), 'blocked': blocked, 'medium': medium, 'seed': 7 * n + m})
    # the caller uses the wrapped file object between finalisations (seek / read move its position); the writer must not
    # write anything on a later finalisation wherever the stream then stands
    for i in range(300 if tier == 'quick' else 12000):
        lens = rng.choice([[5], [1010, 3], [1500, 700], [1004, 1008, 7], [300] * 8, [1012], [1008]])
        toks = [rng.choice('CXR')]
        for _ in range(rng.randint(1, 4)):
            toks.append(rng.choice(['C', 'X', 'R', 'Z', 'Z', 'E', 'T%d' % rng.choice([0, 1, 4, 1012, 1014, 1015, 2028, 3000, rng.randrange(0, 2500)])]))
        if not any(t.startswith('T') for t in toks) and i % 3:
            toks.insert(1, 'T%d' % rng.choice([4, 1014, 2028]))
        if toks[-1].startswith('T'):
            toks.append(rng.choice('CXR'))
        cases.append({'cls': ['vbs', 'ipm'][i % 2], 'lens': lens, 'fins': toks, 'blocked': i % 4 < 3, 'medium': 'mem' if i % 5 else 'disk', 'seed': i, 'touch': True})
    return cases


def recs(case):
    import random
    r = random.Random(case['seed'])
    if case['cls'] == 'ipm':
        out = []
        for i, _ in enumerate(case['lens']):
            m = dict(MSG)
            m['DE2'] = '5' * (13 + i)
            out.append(m)
        return out
    return [record_content(r, n) for n in case['lens']]


def run_history(case, fins):
    from cardutil import mciipm
    rs = recs(case)
    path = None
    if case['medium'] == 'disk':
        fd, path = tempfile.mkstemp(dir=os.getcwd())
        f = os.fdopen(fd, 'w+b')
    else:
        f = io.BytesIO()
    try:
        w = mciipm.IpmWriter(f, blocked=case['blocked']) if case['cls'] == 'ipm' else mciipm.VbsWriter(f, blocked=case['blocked'])
        w.__enter__()
        for r in rs:
            w.write(dict(r) if isinstance(r, dict) else r)
        for x in fins:
            if x.startswith('T'):          # the caller moves the wrapped file's position (f.seek / a read)
                f.seek(int(x[1:]))
            elif x == 'E':                 # write_many of nothing (an empty batch): no record is written
                w.write_many(iter(()))
            elif x == 'Z':                 # the with-block is left through an exception
                try:
                    with w:
                        raise KeyError('the body of the with block failed')
                except KeyError:
                    pass
            elif x == 'C':
                w.close()
            elif x == 'X':
                w.__exit__(None, None, None)
            else:                      # leaving a (further) with-block on the same writer
                with w:
                    pass
        if path:
            f.flush()
            with open(path, 'rb') as g:
                return g.read()
        return f.getvalue()
    finally:
        if path:
            f.close()
            os.unlink(path)


def impl(case):
    from cardutil import mciipm
    res = {'file': outcome(lambda: run_history(case, case['fins']), hb), 'single': outcome(lambda: run_history(case, 'C'), hb)}
    if res['file'].startswith('OK '):
        f = bytes.fromhex(res['file'][3:]) if res['file'][3:] != '-' else b''
        if case['cls'] == 'ipm':
            def rd():
                return [sorted((k, str(v)) for k, v in d.items()) for d in mciipm.IpmReader(io.BytesIO(f), blocked=case['blocked'])]
            res['read'] = outcome(rd, lambda l: repr(l))
            res['want'] = repr([sorted((k, str(v)) for k, v in dict(m, **{'PDS0002': 'abc'}).items()) for m in recs(case)])
        else:
            res['read'] = rend_text(*read_all_impl(f, case['blocked']))
    return res


def model_lines(case, io_):
    if case['cls'] != 'vbs':
        return []
    rs = recs(case)
    if case.get('touch'):
        # write_many(()) is a loop over nothing: no operation of the model
        return ['vbs_write2 %s %s' % ('1' if case['blocked'] else '0', ','.join(['W' + (r.hex() or '_') for r in rs] + [('X' if x in ('R', 'Z') else x) for x in case['fins'] if x != 'E']))]
    return ['vbs_write %s %s' % ('1' if case['blocked'] else '0', ','.join(['W' + (r.hex() or '_') for r in rs] + [('X' if x == 'R' else x) for x in case['fins']]))]


def judge(case, io_, mo):
    ps = []
    if not io_['file'].startswith('OK '):
        return [{'kind': 'oracle', 'sig': 'history-failed', 'msg': 'history %s failed: %s' % (case['fins'], io_['file'])}]
    if case['cls'] == 'vbs':
        want = 'OK ' + hlist(recs(case)) + '|END'
        if io_.get('read') != want:
            ps.append({'kind': 'oracle', 'sig': 'reads-back-wrong-vbs', 'msg': 'after finalisations %s the file reads back as %s' % (case['fins'], str(io_.get('read'))[-70:])})
    else:
        if io_.get('read') != 'OK ' + io_['want']:
            ps.append({'kind': 'oracle', 'sig': 'reads-back-wrong-ipm', 'msg': 'after finalisations %s the IPM file reads back as %s' % (case['fins'], str(io_.get('read'))[:120])})
    if io_['file'] != io_['single']:
        ps.append({'kind': 'oracle', 'sig': 'differs-from-single-close', 'msg': 'finalisations %s leave a different file than a single close()' % case['fins']})
    if mo and not ps:
        f = bytes.fromhex(io_['file'][3:]) if io_['file'][3:] != '-' else b''
        mf = bytes.fromhex(mo[0][3:]) if mo[0][3:] != '-' else b''
        n = len(vbs_ref(recs(case)))
        if (data_blocks(mf, n) != data_blocks(f, n)) if case['blocked'] else (mf != f):
            ps.append({'kind': 'corr', 'sig': 'vbs_write', 'msg': 'file differs from model writer_run for history %s' % case['fins']})
    return ps


def nontrivial(case, io_):
    return len(case['lens']) > 0 or len(case['fins']) > 1


def label(case):
    return '%s/%s/%s/n=%d/m=%d%s' % (case['cls'], '1014' if case['blocked'] else 'vbs', case['medium'], len(case['lens']), len(case['fins']), '/touch' if case.get('touch') else '')
