"""C12 — PDS sub-elements are packed into carrier elements and recovered without loss."""
from util import hb, hs, outcome
import isoutil as iu

ID = 'C12'
RULE = ('PDS sets for the packaged configuration (carriers 48, 62, 123, 124, 125): every pair of value lengths that puts the running '
        'carrier length in 985..1005 (boundary sweep), zero-length values, values made of digits that look like tag/length headers, '
        'sets needing 1..5 carriers incl. five carriers filled to exactly 999, sets needing 6 (must be refused); random sets; '
        'carriers read back with an independent frame reader; non-trivial = distinct set with at least 2 sub-elements')
CODEC_ALIASES = True     # one implementation run in three is given an alias spelling of the codec name (worker.for_impl)
CALL_VARIANTS = True     # bytearray messages, positional arguments and earlier failing calls around the harness's loads / dumps calls (worker.install_call_variants)
EXHAUSTIVE = {'quick': False, 'thorough': True}
ASSUMPTIONS = ['values of 993+ characters and more chunks than carriers are outside the stated domain (refused)']
CARRIERS = [48, 62, 123, 124, 125]


THREADS = True

def text(rng, n, mode):
    if mode == 'digits':
        return ''.join(rng.choice('0123456789') for _ in range(n))
    if mode == 'header':
        return ('0023005' + '0148003')[:n].ljust(n, '7')
    return iu.rand_text(rng, 'latin_1', n)


def gen(rng, tier):
    cases = []

    def add(lens, mode='mixed', tags=None):
        tags = tags or sorted(rng.sample(range(0, 10000), len(lens)))
        cases.append({'tags': tags, 'lens': lens, 'mode': mode, 'seed': rng.randrange(1 << 30), 'extra': rng.random() < 0.3})
    # boundary sweep: first value brings the carrier to 985..1005 - 7 - second
    lo, hi = (985, 1005)
    step = 1 if tier == 'thorough' else 2
    for total in range(lo, hi + 1):
        for second in list(range(0, 21, step)) + [50, 300, 992]:
            first = total - 14 - second
            if 0 <= first <= 992:
                add([first, second], rng.choice(['mixed', 'digits', 'header']))
    for n in (0, 1, 2, 992):
        add([n])
        add([n, n, n])
    add([0] * 40)
    add([992] * 5)                      # five carriers each filled to exactly 999
    add([992] * 4 + [985, 0])           # last carrier 992+7 = 999 exactly with a zero-length element... 985+7+7
    add([992] * 6)                      # six chunks: beyond capacity
    add([992] * 5 + [0])
    add([490, 495] * 5)
    add([491, 494, 1] * 3)
    for _ in range(600 if tier == 'quick' else 20000):
        k = rng.choice([1, 2, 3, 6, 12, 30])
        add([rng.choice([0, 1, 3, 7, 100, 300, 485, 486, 492, rng.randrange(0, 993)]) for _ in range(k)], rng.choice(['mixed', 'digits', 'header']))
    return cases


def the_msg(case):
    import random
    r = random.Random(case['seed'])
    m = {'MTI': '1240'}
    if case['extra']:
        m['DE2'] = '4444555566667777'
        m['DE49'] = '036'
        m['DE127'] = 'network'
    for t, n in zip(case['tags'], case['lens']):
        m['PDS%04d' % t] = text(r, n, case['mode'])
    return m


def impl(case):
    from cardutil import iso8583
    m = the_msg(case)
    if case['seed'] % 3 == 0:
        # an earlier call in the same process under ANOTHER configuration with the same element numbers in the same order,
        # in which two of the carriers are plain text elements: the carriers of the packaged configuration are what they are
        import copy
        from cardutil.config import config
        other = copy.deepcopy(config['bit_config'])
        for b in (('62', '124') if case['seed'] % 2 else ('48', '123')):
            other[b].pop('field_processor', None)
        try:
            iso8583.loads(iso8583.dumps({'MTI': '1240', 'PDS0001': 'a' * 600, 'PDS0002': 'b' * 600, 'PDS0003': 'c' * 600}, iso_config=other), iso_config=other)
        except Exception:
            pass
    # (the packing helper is private: compared when it exists under this name, otherwise the encoded message alone speaks)
    cfg_obj = None
    if case['seed'] % 3 == 1:
        # the configuration OBJECT used for the calls below was used before with other carriers and then edited in place
        # back to the packaged content (two carriers had been plain text elements while an earlier message was encoded)
        import copy
        from cardutil.config import config
        cfg_obj = copy.deepcopy(config['bit_config'])
        for b in (('62', '123') if case['seed'] % 2 else ('48', '124')):
            cfg_obj[b].pop('field_processor', None)
        try:
            iso8583.loads(iso8583.dumps({'MTI': '1240', 'PDS0001': 'a' * 600, 'PDS0002': 'b' * 600, 'PDS0003': 'c' * 600}, iso_config=cfg_obj), iso_config=cfg_obj)
        except Exception:
            pass
        for b in ('48', '62', '123', '124'):
            cfg_obj[b]['field_processor'] = 'PDS'
    res = {'pack': outcome(lambda: iso8583._pds_to_de(dict(m)), lambda l: ','.join(hs(x).replace('-', '_') for x in l) or '-') if hasattr(iso8583, '_pds_to_de') else 'ABSENT',
           'dumps': outcome(lambda: iso8583.dumps(dict(m), iso_config=cfg_obj), hb)}
    if res['dumps'].startswith('OK '):
        b = bytes.fromhex(res['dumps'][3:])
        res['loads'] = outcome(lambda: iso8583.loads(b, iso_config=cfg_obj), iu.dict_text)
    return res


def model_lines(case, io_):
    t = iu.dict_text(the_msg(case))
    return ['pds_to_de ' + t, 'dumps packaged %s 0 %s' % (iu.hs('latin_1'), t)]


def judge(case, io_, mo):
    ps = []
    m = the_msg(case)
    pk = iu.packaged()
    subs = [iu.pds_sub(t, m['PDS%04d' % t]) for t in sorted(case['tags'])]
    need = iu.greedy_chunks([len(s) for s in subs])
    d = io_['dumps']
    if need > len(CARRIERS):
        if d.startswith('OK '):
            ps.append({'kind': 'oracle', 'sig': 'over-capacity-encoded', 'msg': 'a PDS set needing %d carriers was encoded' % need})
        return ps
    if not d.startswith('OK '):
        return [{'kind': 'oracle', 'sig': 'within-capacity-refused', 'msg': 'a PDS set needing %d carriers is refused: %s' % (need, d)}]
    b = bytes.fromhex(d[3:])
    rd = iu.ref_loads(b, pk, 'latin_1', False, strict=True)
    if rd is None:
        return [{'kind': 'oracle', 'sig': 'encoded-message-not-well-framed', 'msg': 'the encoded message is not well framed'}]
    chunks = [rd.get('DE%d' % c) for c in CARRIERS]
    used = [c for c in chunks if c is not None]
    if chunks[:len(used)] != used:
        ps.append({'kind': 'oracle', 'sig': 'carriers-not-ascending-consecutive', 'msg': 'carriers are not filled in ascending element order'})
    elif ''.join(used) != ''.join(subs):
        ps.append({'kind': 'oracle', 'sig': 'packed-data-not-ascending-tags', 'msg': 'carrier contents are not the sub-elements tag(4) length(3) value in ascending tag order'})
    elif any(not (1 <= len(c) <= 999) for c in used):
        ps.append({'kind': 'oracle', 'sig': 'carrier-size', 'msg': 'a carrier holds %s characters' % [len(c) for c in used]})
    elif any(iu.ref_pds_walk(c) is None for c in used):
        ps.append({'kind': 'oracle', 'sig': 'sub-element-split', 'msg': 'a sub-element is split between carriers'})
    elif len(used) != need:
        ps.append({'kind': 'oracle', 'sig': 'not-greedy-minimal', 'msg': '%d carriers used, %d suffice' % (len(used), need)})
    lo = io_.get('loads', '')
    if not ps:
        if not lo.startswith('OK '):
            ps.append({'kind': 'oracle', 'sig': 'decode-failed', 'msg': 'decoding failed: %s' % lo})
        else:
            got = iu.dict_of_text(lo[3:])
            want = {k: v for k, v in m.items() if k.startswith('PDS')}
            if {k: v for k, v in got.items() if k.startswith('PDS')} != want:
                ps.append({'kind': 'oracle', 'sig': 'pds-entries-not-recovered', 'msg': 'PDS entries after decoding differ from the set encoded'})
    if mo is not None and not ps:
        if io_['pack'] != 'ABSENT' and mo[0] != io_['pack']:
            ps.append({'kind': 'corr', 'sig': 'pds_to_de', 'msg': '_pds_to_de differs from model: %s vs %s' % (io_['pack'][:80], mo[0][:80])})
        elif mo[1] != d:
            ps.append({'kind': 'corr', 'sig': 'dumps', 'msg': 'dumps differs from model'})
    return ps


def nontrivial(case, io_):
    return len(case['lens']) >= 2


def label(case):
    need = iu.greedy_chunks([7 + n for n in case['lens']])
    return 'carriers=%d/%s' % (min(need, 6), case['mode'])
