"""C13 — ISO 9564-1 format 0 and format 4 PIN blocks, clear and encrypted (cardutil/pinblock.py).

The judge builds every clear block itself, nibble by nibble from the property text (lists of ints), and every
ciphertext with the from-scratch DES / TDEA / AES reference below (FIPS 46-3, FIPS 197).  The library's own
cipher (`cryptography`) is called directly by the harness as well, so three parties are compared on every
encrypted case: cardutil, cryptography called without cardutil, the reference; known-answer vectors tie the
reference and cryptography to the published standards on every run.  This module also exports the reference
ciphers and the known-answer cases to props/c14.py."""
import os
import functools
from util import hb, hs, outcome

ID = 'C13'
RULE = ('clear blocks: for every PIN length 4..12, every position and every digit value 0-9 at that position (other digits '
        'random), with PANs of every length 13..19 (format 0; every digit value at each of the 12 account-number positions) '
        'and supplied fills 1, 2^63, 2^64-1, small and random 64-bit values (format 4); block compared with a construction '
        'from nibble lists, with the extracted nibble specification and with the model; rebuilt PIN compared with the input. '
        'No fill supplied: secrets.randbits replaced by a recording stub (number of draws, bit count, where the drawn value; if the code draws elsewhere the blocks are judged by behaviour: one fill per object, different fills for separate blocks) '
        'lands, fill 0 counts as not supplied) and runs with the real generator. Encrypted forms: format 0 under TDES, format 4 '
        'under AES and under TDES, keys of 8/16/24 resp. 16/24/32 random bytes in upper/lower case hex; ciphertext compared '
        'with the reference cipher on the independently built block and with a direct call of cryptography; decrypt gives the '
        'PIN. Known-answer vectors for DES, TDEA and AES. Inputs outside the property (PIN lengths 0-3 and 13-16, PANs under '
        '13 digits, non-digit characters, fills >= 2^64, bad keys, arbitrary ciphertexts) are compared with the model only. '
        'Non-trivial = distinct case inside the property (or a known-answer vector)')
EXHAUSTIVE = {}
ASSUMPTIONS = [
    'the ciphers are external: cryptography\'s TripleDES/AES are compared with a from-scratch FIPS 46-3 / FIPS 197 reference '
    'on every encrypted case and with published known-answer vectors on every run, not proved',
    'freshness of the random fill is a property of secrets.randbits; the check shows that every construction without a '
    'supplied fill draws exactly one 64-bit value, where the drawn value is placed, and that real draws differ',
    'random_value=0 is treated by the code as "no fill supplied" (the property speaks of supplied fills 1..2^64-1)',
    'PINs and PANs are strings of ASCII digits; other characters are outside the property (checked against the model only)',
]

# ====================================================================== reference ciphers (from the standards)
# DES / TDEA: FIPS 46-3 (tables IP, IP^-1, E, S1..S8, P, PC-1, PC-2, shift schedule); bit 1 = most significant bit.
# AES: FIPS 197 (S-box from the multiplicative inverse in GF(2^8) and the affine map, KeyExpansion, Cipher, InvCipher).
# No library is called.  Speed: per-byte lookup tables for IP / IP^-1, the S-boxes merged with P (eight 64-entry tables),
# E done with shifts on a 34-bit copy of R (checked against the E table when the module is loaded), key schedules
# cached per key.
_IP = [58, 50, 42, 34, 26, 18, 10, 2, 60, 52, 44, 36, 28, 20, 12, 4, 62, 54, 46, 38, 30, 22, 14, 6, 64, 56, 48, 40, 32, 24, 16, 8,
       57, 49, 41, 33, 25, 17, 9, 1, 59, 51, 43, 35, 27, 19, 11, 3, 61, 53, 45, 37, 29, 21, 13, 5, 63, 55, 47, 39, 31, 23, 15, 7]
_FP = [40, 8, 48, 16, 56, 24, 64, 32, 39, 7, 47, 15, 55, 23, 63, 31, 38, 6, 46, 14, 54, 22, 62, 30, 37, 5, 45, 13, 53, 21, 61, 29,
       36, 4, 44, 12, 52, 20, 60, 28, 35, 3, 43, 11, 51, 19, 59, 27, 34, 2, 42, 10, 50, 18, 58, 26, 33, 1, 41, 9, 49, 17, 57, 25]
_E = [32, 1, 2, 3, 4, 5, 4, 5, 6, 7, 8, 9, 8, 9, 10, 11, 12, 13, 12, 13, 14, 15, 16, 17,
      16, 17, 18, 19, 20, 21, 20, 21, 22, 23, 24, 25, 24, 25, 26, 27, 28, 29, 28, 29, 30, 31, 32, 1]
_P = [16, 7, 20, 21, 29, 12, 28, 17, 1, 15, 23, 26, 5, 18, 31, 10, 2, 8, 24, 14, 32, 27, 3, 9, 19, 13, 30, 6, 22, 11, 4, 25]
_PC1 = [57, 49, 41, 33, 25, 17, 9, 1, 58, 50, 42, 34, 26, 18, 10, 2, 59, 51, 43, 35, 27, 19, 11, 3, 60, 52, 44, 36,
        63, 55, 47, 39, 31, 23, 15, 7, 62, 54, 46, 38, 30, 22, 14, 6, 61, 53, 45, 37, 29, 21, 13, 5, 28, 20, 12, 4]
_PC2 = [14, 17, 11, 24, 1, 5, 3, 28, 15, 6, 21, 10, 23, 19, 12, 4, 26, 8, 16, 7, 27, 20, 13, 2,
        41, 52, 31, 37, 47, 55, 30, 40, 51, 45, 33, 48, 44, 49, 39, 56, 34, 53, 46, 42, 50, 36, 29, 32]
_SHIFTS = [1, 1, 2, 2, 2, 2, 2, 2, 1, 2, 2, 2, 2, 2, 2, 1]
_S = [
    [[14, 4, 13, 1, 2, 15, 11, 8, 3, 10, 6, 12, 5, 9, 0, 7], [0, 15, 7, 4, 14, 2, 13, 1, 10, 6, 12, 11, 9, 5, 3, 8],
     [4, 1, 14, 8, 13, 6, 2, 11, 15, 12, 9, 7, 3, 10, 5, 0], [15, 12, 8, 2, 4, 9, 1, 7, 5, 11, 3, 14, 10, 0, 6, 13]],
    [[15, 1, 8, 14, 6, 11, 3, 4, 9, 7, 2, 13, 12, 0, 5, 10], [3, 13, 4, 7, 15, 2, 8, 14, 12, 0, 1, 10, 6, 9, 11, 5],
     [0, 14, 7, 11, 10, 4, 13, 1, 5, 8, 12, 6, 9, 3, 2, 15], [13, 8, 10, 1, 3, 15, 4, 2, 11, 6, 7, 12, 0, 5, 14, 9]],
    [[10, 0, 9, 14, 6, 3, 15, 5, 1, 13, 12, 7, 11, 4, 2, 8], [13, 7, 0, 9, 3, 4, 6, 10, 2, 8, 5, 14, 12, 11, 15, 1],
     [13, 6, 4, 9, 8, 15, 3, 0, 11, 1, 2, 12, 5, 10, 14, 7], [1, 10, 13, 0, 6, 9, 8, 7, 4, 15, 14, 3, 11, 5, 2, 12]],
    [[7, 13, 14, 3, 0, 6, 9, 10, 1, 2, 8, 5, 11, 12, 4, 15], [13, 8, 11, 5, 6, 15, 0, 3, 4, 7, 2, 12, 1, 10, 14, 9],
     [10, 6, 9, 0, 12, 11, 7, 13, 15, 1, 3, 14, 5, 2, 8, 4], [3, 15, 0, 6, 10, 1, 13, 8, 9, 4, 5, 11, 12, 7, 2, 14]],
    [[2, 12, 4, 1, 7, 10, 11, 6, 8, 5, 3, 15, 13, 0, 14, 9], [14, 11, 2, 12, 4, 7, 13, 1, 5, 0, 15, 10, 3, 9, 8, 6],
     [4, 2, 1, 11, 10, 13, 7, 8, 15, 9, 12, 5, 6, 3, 0, 14], [11, 8, 12, 7, 1, 14, 2, 13, 6, 15, 0, 9, 10, 4, 5, 3]],
    [[12, 1, 10, 15, 9, 2, 6, 8, 0, 13, 3, 4, 14, 7, 5, 11], [10, 15, 4, 2, 7, 12, 9, 5, 6, 1, 13, 14, 0, 11, 3, 8],
     [9, 14, 15, 5, 2, 8, 12, 3, 7, 0, 4, 10, 1, 13, 11, 6], [4, 3, 2, 12, 9, 5, 15, 10, 11, 14, 1, 7, 6, 0, 8, 13]],
    [[4, 11, 2, 14, 15, 0, 8, 13, 3, 12, 9, 7, 5, 10, 6, 1], [13, 0, 11, 7, 4, 9, 1, 10, 14, 3, 5, 12, 2, 15, 8, 6],
     [1, 4, 11, 13, 12, 3, 7, 14, 10, 15, 6, 8, 0, 5, 9, 2], [6, 11, 13, 8, 1, 4, 10, 7, 9, 5, 0, 15, 14, 2, 3, 12]],
    [[13, 2, 8, 4, 6, 15, 11, 1, 10, 9, 3, 14, 5, 0, 12, 7], [1, 15, 13, 8, 10, 3, 7, 4, 12, 5, 6, 11, 0, 14, 9, 2],
     [7, 11, 4, 1, 9, 12, 14, 2, 0, 6, 10, 13, 15, 3, 5, 8], [2, 1, 14, 7, 4, 10, 8, 13, 15, 12, 9, 0, 3, 5, 6, 11]],
]


def _permute(x, table, width):
    """output bit i (from the left) is input bit table[i] (numbered from 1 at the left) of the width-bit number x"""
    r = 0
    for src in table:
        r = (r << 1) | ((x >> (width - src)) & 1)
    return r


def _byte_tables(table, width):
    """the permutation as an OR of per-byte lookups"""
    return [[_permute(v << (width - 8 - 8 * j), table, width) for v in range(256)] for j in range(width // 8)]


_IP_T = _byte_tables(_IP, 64)
_FP_T = _byte_tables(_FP, 64)
# S-box i applied to a 6-bit group (row = outer bits, column = inner four bits), placed at nibble i, then P
_SP = [[_permute(_S[i][((v >> 4) & 2) | (v & 1)][(v >> 1) & 15] << (28 - 4 * i), _P, 32) for v in range(64)] for i in range(8)]


def _e_groups(r):
    """the eight 6-bit groups of E(R): bits 32,1..5 | 4..9 | ... | 28..32,1 read off a 34-bit copy (bit 32, R, bit 1)"""
    x = ((r & 1) << 33) | (r << 1) | (r >> 31)
    return [(x >> (28 - 4 * i)) & 63 for i in range(8)]


for _r in (0, 0xffffffff, 0x80000001, 0x12345678, 0xf0a55a0f, 0x0f0f0f0f, 1, 1 << 31):
    _e = _permute(_r, _E, 32)
    assert _e_groups(_r) == [(_e >> (42 - 6 * i)) & 63 for i in range(8)], 'E expansion'
assert all(_permute(_permute(v, _IP, 64), _FP, 64) == v for v in (0x0123456789abcdef, 1, 1 << 63, 0xdeadbeef00c0ffee)), 'IP^-1'


@functools.lru_cache(maxsize=4096)
def des_key_schedule(key8):
    """sixteen round keys, each as eight 6-bit groups (parity bits ignored)"""
    cd = _permute(int.from_bytes(key8, 'big'), _PC1, 64)
    c, d = cd >> 28, cd & 0xfffffff
    ks = []
    for s in _SHIFTS:
        c = ((c << s) | (c >> (28 - s))) & 0xfffffff
        d = ((d << s) | (d >> (28 - s))) & 0xfffffff
        k = _permute((c << 28) | d, _PC2, 56)
        ks.append(tuple((k >> (42 - 6 * i)) & 63 for i in range(8)))
    return tuple(ks)


def _des_int(x, ks):
    """one DES computation on a 64-bit number with the round keys in the given order"""
    t = _IP_T
    x = (t[0][x >> 56] | t[1][(x >> 48) & 255] | t[2][(x >> 40) & 255] | t[3][(x >> 32) & 255]
         | t[4][(x >> 24) & 255] | t[5][(x >> 16) & 255] | t[6][(x >> 8) & 255] | t[7][x & 255])
    l, r = x >> 32, x & 0xffffffff
    s0, s1, s2, s3, s4, s5, s6, s7 = _SP
    for k in ks:
        y = ((r & 1) << 33) | (r << 1) | (r >> 31)
        f = (s0[(y >> 28) ^ k[0]] | s1[((y >> 24) & 63) ^ k[1]] | s2[((y >> 20) & 63) ^ k[2]] | s3[((y >> 16) & 63) ^ k[3]]
             | s4[((y >> 12) & 63) ^ k[4]] | s5[((y >> 8) & 63) ^ k[5]] | s6[((y >> 4) & 63) ^ k[6]] | s7[(y & 63) ^ k[7]])
        l, r = r, l ^ f
    x = (r << 32) | l                      # the pre-output block is R16 L16
    t = _FP_T
    return (t[0][x >> 56] | t[1][(x >> 48) & 255] | t[2][(x >> 40) & 255] | t[3][(x >> 32) & 255]
            | t[4][(x >> 24) & 255] | t[5][(x >> 16) & 255] | t[6][(x >> 8) & 255] | t[7][x & 255])


def des_encrypt_block(key8, block8):
    return _des_int(int.from_bytes(block8, 'big'), des_key_schedule(bytes(key8))).to_bytes(8, 'big')


def des_decrypt_block(key8, block8):
    return _des_int(int.from_bytes(block8, 'big'), des_key_schedule(bytes(key8))[::-1]).to_bytes(8, 'big')


def tdes_key_bundle(key):
    key = bytes(key)
    if len(key) == 8:
        return key, key, key
    if len(key) == 16:
        return key[:8], key[8:], key[:8]
    if len(key) == 24:
        return key[:8], key[8:16], key[16:]
    raise ValueError('TDEA key of %d bytes' % len(key))


def tdes_encrypt_block(key, block8):
    """TDEA: E_K3(D_K2(E_K1(block)))"""
    k1, k2, k3 = tdes_key_bundle(key)
    x = _des_int(int.from_bytes(block8, 'big'), des_key_schedule(k1))
    x = _des_int(x, des_key_schedule(k2)[::-1])
    return _des_int(x, des_key_schedule(k3)).to_bytes(8, 'big')


def tdes_decrypt_block(key, block8):
    """TDEA inverse: D_K1(E_K2(D_K3(block)))"""
    k1, k2, k3 = tdes_key_bundle(key)
    x = _des_int(int.from_bytes(block8, 'big'), des_key_schedule(k3)[::-1])
    x = _des_int(x, des_key_schedule(k2))
    return _des_int(x, des_key_schedule(k1)[::-1]).to_bytes(8, 'big')


def _ecb(fn, key, data, bs):
    data = bytes(data)
    if len(data) % bs:
        raise ValueError('ECB data length %d is not a multiple of %d' % (len(data), bs))
    return b''.join(fn(key, data[i:i + bs]) for i in range(0, len(data), bs))


@functools.lru_cache(maxsize=65536)
def tdes_ecb_encrypt(key, data):
    return _ecb(tdes_encrypt_block, key, data, 8)


@functools.lru_cache(maxsize=65536)
def tdes_ecb_decrypt(key, data):
    return _ecb(tdes_decrypt_block, key, data, 8)


# ---------------------------------------------------------------------- AES (FIPS 197)
def _xtime(a):
    a <<= 1
    return (a ^ 0x11b) & 0xff if a & 0x100 else a


def _gmul(a, b):
    r = 0
    while b:
        if b & 1:
            r ^= a
        a = _xtime(a)
        b >>= 1
    return r


def _make_sbox():
    inv = [0] * 256
    for a in range(1, 256):
        for b in range(1, 256):
            if _gmul(a, b) == 1:
                inv[a] = b
                break
    sbox = []
    for a in range(256):
        b = inv[a]
        r = 0
        for i in range(8):   # b'_i = b_i + b_(i+4) + b_(i+5) + b_(i+6) + b_(i+7) + c_i, c = 0x63
            bit = ((b >> i) ^ (b >> ((i + 4) % 8)) ^ (b >> ((i + 5) % 8)) ^ (b >> ((i + 6) % 8)) ^ (b >> ((i + 7) % 8)) ^ (0x63 >> i)) & 1
            r |= bit << i
        sbox.append(r)
    return sbox


_SBOX = _make_sbox()
_INV_SBOX = [0] * 256
for _i, _v in enumerate(_SBOX):
    _INV_SBOX[_v] = _i
assert _SBOX[0] == 0x63 and _SBOX[0x53] == 0xed and sorted(_SBOX) == list(range(256)), 'AES S-box'
_M2 = [_gmul(v, 2) for v in range(256)]
_M3 = [_gmul(v, 3) for v in range(256)]
_M9 = [_gmul(v, 9) for v in range(256)]
_M11 = [_gmul(v, 11) for v in range(256)]
_M13 = [_gmul(v, 13) for v in range(256)]
_M14 = [_gmul(v, 14) for v in range(256)]


@functools.lru_cache(maxsize=4096)
def aes_key_schedule(key):
    """KeyExpansion: Nb*(Nr+1) words, returned as Nr+1 round keys of 16 bytes (column order = state order)"""
    nk = len(key) // 4
    if len(key) not in (16, 24, 32):
        raise ValueError('AES key of %d bytes' % len(key))
    nr = nk + 6
    w = [list(key[4 * i:4 * i + 4]) for i in range(nk)]
    rcon = 1
    for i in range(nk, 4 * (nr + 1)):
        t = list(w[i - 1])
        if i % nk == 0:
            t = t[1:] + t[:1]
            t = [_SBOX[b] for b in t]
            t[0] ^= rcon
            rcon = _xtime(rcon)
        elif nk > 6 and i % nk == 4:
            t = [_SBOX[b] for b in t]
        w.append([a ^ b for a, b in zip(w[i - nk], t)])
    return tuple(tuple(b for word in w[4 * r:4 * r + 4] for b in word) for r in range(nr + 1))


# state as 16 bytes in input order: byte index r + 4c is row r, column c.  ShiftRows: row r moves left by r columns.
_SHIFT = [(r + 4 * ((c + r) % 4)) for c in range(4) for r in range(4)]          # new[i] = old[_SHIFT[i]]
_INV_SHIFT = [(r + 4 * ((c - r) % 4)) for c in range(4) for r in range(4)]


def aes_encrypt_block(key, block16):
    rk = aes_key_schedule(bytes(key))
    s = [a ^ b for a, b in zip(block16, rk[0])]
    nr = len(rk) - 1
    sb, m2, m3 = _SBOX, _M2, _M3
    for rnd in range(1, nr + 1):
        s = [sb[s[j]] for j in _SHIFT]                       # SubBytes + ShiftRows
        if rnd != nr:                                        # MixColumns
            t = []
            for c in (0, 4, 8, 12):
                a0, a1, a2, a3 = s[c], s[c + 1], s[c + 2], s[c + 3]
                t += [m2[a0] ^ m3[a1] ^ a2 ^ a3, a0 ^ m2[a1] ^ m3[a2] ^ a3, a0 ^ a1 ^ m2[a2] ^ m3[a3], m3[a0] ^ a1 ^ a2 ^ m2[a3]]
            s = t
        k = rk[rnd]
        s = [a ^ b for a, b in zip(s, k)]
    return bytes(s)


def aes_decrypt_block(key, block16):
    rk = aes_key_schedule(bytes(key))
    nr = len(rk) - 1
    s = [a ^ b for a, b in zip(block16, rk[nr])]
    isb, m9, m11, m13, m14 = _INV_SBOX, _M9, _M11, _M13, _M14
    for rnd in range(nr - 1, -1, -1):
        s = [isb[s[j]] for j in _INV_SHIFT]                  # InvShiftRows + InvSubBytes
        s = [a ^ b for a, b in zip(s, rk[rnd])]
        if rnd != 0:                                         # InvMixColumns
            t = []
            for c in (0, 4, 8, 12):
                a0, a1, a2, a3 = s[c], s[c + 1], s[c + 2], s[c + 3]
                t += [m14[a0] ^ m11[a1] ^ m13[a2] ^ m9[a3], m9[a0] ^ m14[a1] ^ m11[a2] ^ m13[a3],
                      m13[a0] ^ m9[a1] ^ m14[a2] ^ m11[a3], m11[a0] ^ m13[a1] ^ m9[a2] ^ m14[a3]]
            s = t
    return bytes(s)


@functools.lru_cache(maxsize=65536)
def aes_ecb_encrypt(key, data):
    return _ecb(aes_encrypt_block, key, data, 16)


@functools.lru_cache(maxsize=65536)
def aes_ecb_decrypt(key, data):
    return _ecb(aes_decrypt_block, key, data, 16)


# ====================================================================== known-answer vectors (shared with C14)
def _h(s):
    return ''.join(s.split()).lower()


KATS = [
    # DES (TDEA with K1 = K2 = K3).  Worked example and the variable-plaintext / variable-key tests of NIST SP 800-17
    ('tdes', '133457799BBCDFF1', '0123456789ABCDEF', '85E813540F0AB405', 'DES worked example'),
    ('tdes', '0101010101010101', '8000000000000000', '95F8A5E5DD31D900', 'SP 800-17 variable plaintext, round 0'),
    ('tdes', '8001010101010101', '0000000000000000', '95A8D72813DAA94D', 'SP 800-17 variable key, round 0'),
    ('tdes', '0000000000000000', '0000000000000000', '8CA64DE9C1B123A7', 'check value of the all-zero DES key'),
    # TDEA.  NIST SP 800-67 appendix B (three independent keys, three blocks in ECB)
    ('tdes', '0123456789ABCDEF 23456789ABCDEF01 456789ABCDEF0123', '5468652071756663 6B2062726F776E20 666F78206A756D70',
     'A826FD8CE53B855F CCE21C8112256FE6 68D5C05DD9B6B900', 'SP 800-67 appendix B'),
    # compositions of the DES vectors above: E_K3(D_K2(E_K1(x)))
    ('tdes', '0101010101010101 0101010101010101 8001010101010101', '0000000000000000', '95A8D72813DAA94D',
     'K1 = K2 cancel, then the variable-key vector under K3'),
    ('tdes', '133457799BBCDFF1 133457799BBCDFF1', '0123456789ABCDEF 0123456789ABCDEF', '85E813540F0AB405 85E813540F0AB405',
     'two-key TDEA with K1 = K2 is DES; two ECB blocks'),
    ('tdes', '8001010101010101 8001010101010101 133457799BBCDFF1', '0123456789ABCDEF', '85E813540F0AB405',
     'K1 = K2 cancel, then the worked example under K3'),
    ('tdes', '00000000000000000000000000000000', '0000000000000000 0000000000000000', '8CA64DE9C1B123A7 8CA64DE9C1B123A7',
     'double-length zero key on 16 zero bytes (key check value 8CA64D)'),
    # AES.  FIPS 197 appendix C.1-C.3, appendix B, NIST SP 800-38A F.1.1 / F.1.3 / F.1.5 (first block)
    ('aes', '000102030405060708090a0b0c0d0e0f', '00112233445566778899aabbccddeeff', '69c4e0d86a7b0430d8cdb78070b4c55a', 'FIPS 197 C.1'),
    ('aes', '000102030405060708090a0b0c0d0e0f1011121314151617', '00112233445566778899aabbccddeeff', 'dda97ca4864cdfe06eaf70a0ec0d7191',
     'FIPS 197 C.2'),
    ('aes', '000102030405060708090a0b0c0d0e0f101112131415161718191a1b1c1d1e1f', '00112233445566778899aabbccddeeff',
     '8ea2b7ca516745bfeafc49904b496089', 'FIPS 197 C.3'),
    ('aes', '2b7e151628aed2a6abf7158809cf4f3c', '3243f6a8885a308d313198a2e0370734', '3925841d02dc09fbdc118597196a0b32', 'FIPS 197 appendix B'),
    ('aes', '2b7e151628aed2a6abf7158809cf4f3c', '6bc1bee22e409f96e93d7e117393172a ae2d8a571e03ac9c9eb76fac45af8e51',
     '3ad77bb40d7a3660a89ecaf32466ef97 f5d3d58503b9699de785895a96fdbaaf', 'SP 800-38A F.1.1, two blocks'),
]


# ciphers that exist inside the Coq model (model/Des.v ...): driver table names for encryption / decryption
MODEL_CIPHERS = {'tdes': ('TDES', 'TDESD'), 'aes': ('AES', 'AESD')}


def rand_kat_cases(rng, n):
    """random keys and blocks: the ciphertext is computed by the from-scratch reference at generation time; cryptography
    and the extracted cipher model are both compared with it"""
    out = []
    for i in range(n):
        alg = 'tdes' if i % 2 == 0 else 'aes'
        klen = rng.choice([8, 16, 24] if alg == 'tdes' else [16, 24, 32])
        bs = 8 if alg == 'tdes' else 16
        key = bytes(rng.randrange(256) for _ in range(klen))
        if rng.random() < 0.15:
            key = bytes([rng.choice([0, 1, 0xfe, 0xff])]) * klen
        pt = bytes(rng.randrange(256) for _ in range(bs * rng.choice([1, 1, 2, 3])))
        out.append({'kind': 'kat', 'alg': alg, 'key': key.hex(), 'pt': pt.hex(), 'ct': ref_ecb(alg, key, pt).hex(), 'src': 'random'})
    return out


def kat_cases():
    return [{'kind': 'kat', 'alg': a, 'key': _h(k), 'pt': _h(p), 'ct': _h(c), 'src': s} for a, k, p, c, s in KATS]


def lib_ecb(alg, key, data, decrypt=False):
    """the library's cipher called directly by the harness (worker side only): cryptography, ECB, no cardutil"""
    from cryptography.hazmat.primitives.ciphers import Cipher, algorithms, modes
    from cryptography.hazmat.decrepit.ciphers import algorithms as d_algorithms
    a = d_algorithms.TripleDES(key) if alg == 'tdes' else algorithms.AES(key)
    c = Cipher(a, modes.ECB())
    op = c.decryptor() if decrypt else c.encryptor()
    return op.update(data) + op.finalize()


def ref_ecb(alg, key, data, decrypt=False):
    """the from-scratch reference (judge side)"""
    if alg == 'tdes':
        return (tdes_ecb_decrypt if decrypt else tdes_ecb_encrypt)(bytes(key), bytes(data))
    return (aes_ecb_decrypt if decrypt else aes_ecb_encrypt)(bytes(key), bytes(data))


def kat_impl(case):
    import warnings
    warnings.simplefilter('ignore')
    key, pt, ct = bytes.fromhex(case['key']), bytes.fromhex(case['pt']), bytes.fromhex(case['ct'])
    return {'enc': outcome(lambda: lib_ecb(case['alg'], key, pt), hb), 'dec': outcome(lambda: lib_ecb(case['alg'], key, ct, True), hb)}


def kat_judge(case, io, mo=None):
    ps = []
    if mo and len(mo) == 2 and case['alg'] in MODEL_CIPHERS:
        if mo[0] != 'OK ' + (case['ct'] or '-'):
            ps.append({'kind': 'oracle', 'sig': 'kat-model-%s-encrypt' % case['alg'], 'msg': 'the Coq cipher model gives %s for the known answer %s (%s)' % (mo[0], case['ct'], case.get('src'))})
        if mo[1] != 'OK ' + (case['pt'] or '-'):
            ps.append({'kind': 'oracle', 'sig': 'kat-model-%s-decrypt' % case['alg'], 'msg': 'the Coq cipher model (decrypt) gives %s for %s (%s)' % (mo[1], case['pt'], case.get('src'))})
    alg = case['alg']
    key, pt, ct = bytes.fromhex(case['key']), bytes.fromhex(case['pt']), bytes.fromhex(case['ct'])
    what = '%s known-answer vector (%s)' % (alg, case.get('src', ''))
    if ref_ecb(alg, key, pt) != ct:
        ps.append({'kind': 'oracle', 'sig': 'kat-reference-%s-encrypt' % alg, 'msg': 'from-scratch reference fails the ' + what})
    if ref_ecb(alg, key, ct, True) != pt:
        ps.append({'kind': 'oracle', 'sig': 'kat-reference-%s-decrypt' % alg, 'msg': 'from-scratch reference (decrypt) fails the ' + what})
    if io.get('enc') != 'OK ' + hb(ct):
        ps.append({'kind': 'oracle', 'sig': 'kat-cryptography-%s-encrypt' % alg, 'msg': 'cryptography fails the %s: %s' % (what, io.get('enc'))})
    if io.get('dec') != 'OK ' + hb(pt):
        ps.append({'kind': 'oracle', 'sig': 'kat-cryptography-%s-decrypt' % alg, 'msg': 'cryptography (decrypt) fails the %s: %s' % (what, io.get('dec'))})
    return ps


# ====================================================================== the property, built from its text
# Fields are lists of nibbles (ints 0..15), most significant first; nothing here goes through hex strings or big integers.
TWO64 = 1 << 64


def is_digits(s):
    return isinstance(s, str) and all(c in '0123456789' for c in s)


def digits(s):
    return ['0123456789'.index(c) for c in s]


def pan_field(pan, n):
    """the n rightmost digits of the PAN excluding the check digit (the check digit is the last digit)"""
    body = digits(pan)
    body.pop()
    return body[len(body) - n:]


def pack(nibbles):
    return bytes(16 * nibbles[i] + nibbles[i + 1] for i in range(0, len(nibbles), 2))


def nibbles(data):
    out = []
    for b in data:
        out += [b // 16, b % 16]
    return out


def pin_field(control, fill, pin):
    p = digits(pin)
    return [control, len(p)] + p + [fill] * (14 - len(p))


def ref_block0(pin, pan):
    """(0, length, PIN, F fill)  XOR  (0000, 12 rightmost PAN digits excluding the check digit)"""
    f1 = pin_field(0, 15, pin)
    f2 = [0, 0, 0, 0] + pan_field(pan, 12)
    return pack([a ^ b for a, b in zip(f1, f2)])


def ref_head4(pin):
    return pack(pin_field(4, 10, pin))


def ref_block4(pin, rnd):
    """(4, length, PIN, A fill to 16 digits) followed by the 64 random bits"""
    return ref_head4(pin) + pack([(rnd >> (4 * (15 - i))) & 15 for i in range(16)])


def pin_ok(pin):
    return is_digits(pin) and 4 <= len(pin) <= 12


def pan_ok(pan):
    return is_digits(pan) and len(pan) >= 13


def rnd_ok(rnd):
    return 1 <= rnd < TWO64


def hex_key(key):
    """the key bytes of a hex string as binascii.unhexlify reads it, None when it is not one"""
    if not isinstance(key, str) or len(key) % 2 or any(c not in '0123456789abcdefABCDEF' for c in key):
        return None
    return bytes(int(key[i:i + 2], 16) for i in range(0, len(key), 2))


CLASSES = {
    # name -> (format, cipher, class name in cardutil.pinblock or None = built with type() from the mix-ins)
    'iso0': (0, None, 'Iso0PinBlock'),
    'iso0tdes': (0, 'tdes', 'Iso0TDESPinBlockWithVisaPVV'),
    'iso4': (4, None, 'Iso4PinBlock'),
    'iso4aes': (4, 'aes', 'Iso4AESPinBlockWithVisaPVV'),
    'iso4tdes': (4, 'tdes', None),
}
KEY_SIZES = {'tdes': (8, 16, 24), 'aes': (16, 24, 32)}
BLOCK = {'tdes': 8, 'aes': 16}


def key_ok(alg, key):
    k = hex_key(key)
    return k is not None and len(k) in KEY_SIZES[alg]


def the_class(name):
    from cardutil import pinblock
    fmt, alg, cname = CLASSES[name]
    if cname:
        return getattr(pinblock, cname)
    return type('Iso4TDESPinBlock', (pinblock.Iso4PinBlock, pinblock.TdesEncryptedPinBlockMixin), {})


def in_domain(case):
    k = case['kind']
    if k == 'kat':
        return True
    if k == 'dec':
        return False
    fmt, alg, _ = CLASSES[case['cls']]
    ok = pin_ok(case['pin'])
    if fmt == 0:
        ok = ok and pan_ok(case['pan'])
    elif k in ('f4', 'enc'):
        ok = ok and rnd_ok(int(case['rnd']))
    if k == 'enc':
        ok = ok and key_ok(alg, case['key'])
    return ok


def clear_ref(case):
    fmt = CLASSES[case['cls']][0]
    return ref_block0(case['pin'], case['pan']) if fmt == 0 else ref_block4(case['pin'], int(case['rnd']))


# ====================================================================== generation
def rdigits(rng, n):
    return ''.join(rng.choice('0123456789') for _ in range(n))


def rkey(rng, n):
    k = bytes(rng.randrange(256) for _ in range(n)).hex()
    return k.upper() if rng.random() < 0.4 else k


def rfill(rng):
    return rng.choice([1, 1 << 63, TWO64 - 1, rng.randrange(1, TWO64), rng.randrange(1, TWO64), rng.randrange(1, 1000),
                       rng.randrange(1, 1 << 32)])


def gen(rng, tier):
    reps = 2 if tier == 'quick' else 40
    cases = kat_cases() + rand_kat_cases(rng, 60 if tier == 'quick' else 1500)
    for _ in range(reps):
        # every PIN length x position x digit value; PAN lengths 13..19 in turn
        n = 0
        for ln in range(4, 13):
            for pos in range(ln):
                for d in '0123456789':
                    pin = rdigits(rng, pos) + d + rdigits(rng, ln - pos - 1)
                    n += 1
                    cases.append({'kind': 'f0', 'cls': 'iso0' if n % 3 else 'iso0tdes', 'pin': pin, 'pan': rdigits(rng, 13 + n % 7)})
                    pin = rdigits(rng, pos) + d + rdigits(rng, ln - pos - 1)
                    cases.append({'kind': 'f4', 'cls': 'iso4' if n % 3 else 'iso4aes', 'pin': pin, 'rnd': str(rfill(rng)),
                                  'draws': [str(rng.randrange(TWO64))]})
        # every PAN length x account-number position (1 = next to the check digit) x digit value
        for pl in range(13, 20):
            for pos in range(1, 13):
                for d in '0123456789':
                    pan = rdigits(rng, pl - pos - 1) + d + rdigits(rng, pos)
                    cases.append({'kind': 'f0', 'cls': 'iso0', 'pin': rdigits(rng, rng.randrange(4, 13)), 'pan': pan})
        # extremes
        for ln in range(4, 13):
            for pin in ('0' * ln, '9' * ln, '1234567890123'[:ln]):
                for pan in ('0' * 16, '9' * 19, '1' * 13, '4000001234567899', rdigits(rng, 22), rdigits(rng, 40)):
                    cases.append({'kind': 'f0', 'cls': 'iso0', 'pin': pin, 'pan': pan})
                for rnd in (1, 1 << 63, TWO64 - 1, 0x0123456789abcdef, 10, 0xfedcba9876543210):
                    cases.append({'kind': 'f4', 'cls': 'iso4', 'pin': pin, 'rnd': str(rnd), 'draws': [str(rng.randrange(TWO64))]})
        # no fill supplied: recording stub in place of secrets.randbits
        for ln in range(4, 13):
            for j in range(6):
                draws = [rng.randrange(TWO64) for _ in range(4)]
                if j == 0:
                    draws[0] = TWO64 - 1
                if j == 1:
                    draws[0] = 0
                if j == 2:
                    draws[0] = draws[1] = 1
                if j == 3:
                    draws[1] = rng.randrange(1, 16)
                cases.append({'kind': 'f4draw', 'cls': 'iso4' if j % 2 else 'iso4aes', 'pin': rdigits(rng, ln), 'rv': None,
                              'draws': [str(x) for x in draws]})
            cases.append({'kind': 'f4draw', 'cls': 'iso4', 'pin': rdigits(rng, ln), 'rv': '0',
                          'draws': [str(rng.randrange(TWO64)) for _ in range(4)]})
            for _j in range(3):
                cases.append({'kind': 'f4real', 'cls': 'iso4', 'pin': rdigits(rng, ln)})
        # encrypted forms
        for cls in ('iso0tdes', 'iso4aes', 'iso4tdes'):
            alg = CLASSES[cls][1]
            for ks in KEY_SIZES[alg]:
                for ln in range(4, 13):
                    for _j in range(4 if ks != 8 else 2):
                        c = {'kind': 'enc', 'cls': cls, 'pin': rdigits(rng, ln), 'key': rkey(rng, ks)}
                        if CLASSES[cls][0] == 0:
                            c['pan'] = rdigits(rng, rng.randrange(13, 20))
                        else:
                            c['rnd'] = str(rfill(rng))
                            if rng.random() < 0.5:
                                c['pan'] = rdigits(rng, 16)
                        cases.append(c)
        # documented vectors (module docstring and tests of cardutil): same generic checks apply
        cases.append({'kind': 'f0', 'cls': 'iso0', 'pin': '1234', 'pan': '1111222233334444'})
        cases.append({'kind': 'f0', 'cls': 'iso0', 'pin': '1234', 'pan': '4441234567890123'})
        cases.append({'kind': 'enc', 'cls': 'iso0tdes', 'pin': '1234', 'pan': '1111222233334444', 'key': '00' * 16})
        cases.append({'kind': 'enc', 'cls': 'iso4aes', 'pin': '1234', 'rnd': '14932500169729639426', 'key': '00' * 16})
        # ---- outside the property: correspondence with the model only
        for pin in ('', '1', '12', '123', rdigits(rng, 13), rdigits(rng, 14), rdigits(rng, 15), rdigits(rng, 16), rdigits(rng, 17),
                    rdigits(rng, 30), '12a4', 'ABCDEF', '12g4', '1 34', '12345٣', 'é234', 'abcdefabcdefab'):
            for pan in (rdigits(rng, 16), rdigits(rng, 12)):
                cases.append({'kind': 'f0', 'cls': 'iso0', 'pin': pin, 'pan': pan})
            cases.append({'kind': 'f4', 'cls': 'iso4', 'pin': pin, 'rnd': str(rfill(rng)), 'draws': [str(rng.randrange(TWO64))]})
            cases.append({'kind': 'enc', 'cls': 'iso0tdes', 'pin': pin, 'pan': rdigits(rng, 16), 'key': rkey(rng, 16)})
            cases.append({'kind': 'enc', 'cls': 'iso4aes', 'pin': pin, 'rnd': str(rfill(rng)), 'key': rkey(rng, 16)})
        for pan in ('', '1', '12', rdigits(rng, 5), rdigits(rng, 11), rdigits(rng, 12), '11112222g3334444', '1111-2222-3333-4444',
                    'abcdefabcdefabcdef', '111122223333444٤', '1111 2222 33334444', 'g' + rdigits(rng, 15), rdigits(rng, 15) + 'g',
                    rdigits(rng, 3) + 'g' + rdigits(rng, 14)):
            for ln in (4, 6, 12):
                cases.append({'kind': 'f0', 'cls': 'iso0', 'pin': rdigits(rng, ln), 'pan': pan})
            cases.append({'kind': 'enc', 'cls': 'iso0tdes', 'pin': rdigits(rng, 4), 'pan': pan, 'key': rkey(rng, 24)})
        for rnd in (TWO64, TWO64 + 5, 1 << 68, (1 << 72) - 1, 1 << 100):
            cases.append({'kind': 'f4', 'cls': 'iso4', 'pin': rdigits(rng, 6), 'rnd': str(rnd), 'draws': [str(rng.randrange(TWO64))]})
            cases.append({'kind': 'enc', 'cls': 'iso4aes', 'pin': rdigits(rng, 6), 'rnd': str(rnd), 'key': rkey(rng, 32)})
        for cls in ('iso0tdes', 'iso4aes', 'iso4tdes'):
            alg = CLASSES[cls][1]
            good = rkey(rng, 16)
            for key in ('', '00', rkey(rng, 7), rkey(rng, 9), rkey(rng, 12), rkey(rng, 15), rkey(rng, 17), rkey(rng, 20), rkey(rng, 25),
                        rkey(rng, 33), rkey(rng, 8 if alg == 'aes' else 32), good[:-1], good + '0', 'g' + good[1:], good[:-2] + 'zz',
                        good[:16] + ' ' + good[17:], 'é' + good[1:], '0x' + good[2:]):
                c = {'kind': 'enc', 'cls': cls, 'pin': rdigits(rng, 5), 'key': key}
                if CLASSES[cls][0] == 0:
                    c['pan'] = rdigits(rng, 16)
                else:
                    c['rnd'] = str(rfill(rng))
                cases.append(c)
                d = {'kind': 'dec', 'cls': cls, 'key': key, 'enc': bytes(rng.randrange(256) for _ in range(16)).hex()}
                if CLASSES[cls][0] == 0:
                    d['pan'] = rdigits(rng, 16)
                cases.append(d)
            # arbitrary ciphertexts, also of a wrong length
            for ks in KEY_SIZES[alg]:
                for n in (0, 1, 7, 8, 9, 15, 16, 17, 24, 32):
                    for _j in range(2):
                        d = {'kind': 'dec', 'cls': cls, 'key': rkey(rng, ks), 'enc': bytes(rng.randrange(256) for _ in range(n)).hex()}
                        if CLASSES[cls][0] == 0:
                            d['pan'] = rng.choice([rdigits(rng, 16), rdigits(rng, 19), rdigits(rng, 4), ''])
                        cases.append(d)
    return cases


# ====================================================================== implementation side (worker process)
class Draws:
    """stands for secrets.randbits: returns the values chosen in the case, records every request"""
    def __init__(self, values):
        self.values = [int(v) for v in values]
        self.log = []

    def __call__(self, k):
        v = self.values[len(self.log)] if len(self.log) < len(self.values) else 0x0123456789abcdef
        self.log.append([k, str(v)])
        return v


class patched_randbits:
    def __init__(self, stub):
        self.stub = stub

    def __enter__(self):
        from cardutil import pinblock
        self.mod = getattr(pinblock, 'secrets', None)
        if self.mod is None:
            import secrets
            self.mod = secrets
        self.old = self.mod.randbits
        self.mod.randbits = self.stub
        return self.stub

    def __exit__(self, *a):
        self.mod.randbits = self.old
        return False


def build(cls, case):
    """the block object of the case"""
    if CLASSES[case['cls']][0] == 0:
        return cls(case['pin'], card_number=case['pan'])
    return cls(case['pin'], random_value=int(case['rnd']))


def from_kw(case):
    return {'card_number': case['pan']} if 'pan' in case else {}


def impl(case):
    import warnings
    warnings.simplefilter('ignore')
    k = case['kind']
    if k == 'kat':
        return kat_impl(case)
    cls = the_class(case['cls'])
    dom = in_domain(case)
    r = {}
    if k == 'f0':
        r['to'] = outcome(lambda: build(cls, case).to_bytes(), hb)
        if r['to'].startswith('OK '):
            blk = build(cls, case).to_bytes()
            r['from'] = outcome(lambda: cls.from_bytes(blk, card_number=case['pan']).pin, hs)
        if dom:
            r['from_ref'] = outcome(lambda: cls.from_bytes(ref_block0(case['pin'], case['pan']), card_number=case['pan']).pin, hs)
        return r
    if k == 'f4':
        with patched_randbits(Draws(case['draws'])) as st:
            r['to'] = outcome(lambda: build(cls, case).to_bytes(), hb)
            r['ndraw_to'] = len(st.log)
            if r['to'].startswith('OK '):
                blk = build(cls, case).to_bytes()
                n = len(st.log)
                r['from'] = outcome(lambda: cls.from_bytes(blk).pin, hs)
                r['ndraw_from'] = len(st.log) - n
            if dom:
                r['from_ref'] = outcome(lambda: cls.from_bytes(ref_block4(case['pin'], int(case['rnd']))).pin, hs)
        return r
    if k == 'f4draw':
        kw = {} if case.get('rv') is None else {'random_value': int(case['rv'])}

        def run():
            counts = []
            a = cls(case['pin'], **kw)
            counts.append(len(st.log))
            b1, b2 = a.to_bytes(), a.to_bytes()
            counts.append(len(st.log))
            b = cls(case['pin'], **kw)
            counts.append(len(st.log))
            b3 = b.to_bytes()
            c = cls.from_bytes(b1)
            counts.append(len(st.log))
            b4 = c.to_bytes()
            counts.append(len(st.log))
            return {'blocks': [hb(b1), hb(b2), hb(b3), hb(b4)], 'pin': hs(c.pin), 'counts': counts}
        with patched_randbits(Draws(case['draws'])) as st:
            try:
                r = run()
            except Exception as ex:
                r = {'err': '%s: %s' % (type(ex).__name__, ex)}
            r['log'] = st.log
        return r
    if k == 'f4real':
        try:
            a, b = cls(case['pin']), cls(case['pin'])
            r = {'blocks': [hb(a.to_bytes()), hb(a.to_bytes()), hb(b.to_bytes())], 'pin': hs(cls.from_bytes(a.to_bytes()).pin)}
            # processes forked from this one (a pre-forking server): each builds a block of its own
            forked = []
            for _ in range(2):
                rd, wr = os.pipe()
                pid = os.fork()
                if pid == 0:
                    try:
                        os.close(rd)
                        os.write(wr, cls(case['pin']).to_bytes().hex().encode('ascii'))
                    finally:
                        os._exit(0)
                os.close(wr)
                data = b''
                while True:
                    chunk = os.read(rd, 4096)
                    if not chunk:
                        break
                    data += chunk
                os.close(rd)
                os.waitpid(pid, 0)
                forked.append(data.decode('ascii'))
            r['forked'] = forked
        except Exception as ex:
            r = {'err': '%s: %s' % (type(ex).__name__, ex)}
        return r
    if k in ('enc', 'dec'):
        import zlib
        if zlib.crc32(repr(sorted(case.items())).encode()) % 3 == 0:
            # earlier calls under the SAME key that fail (an encrypted block that is not a whole number of cipher blocks):
            # what they leave behind must not reach the calls that follow
            for junk in (b'\x01' * 7, b'\x02' * 3, b'\x03' * 17):
                for fn in (lambda: cls.from_enc_bytes(junk, key=case['key'], **from_kw(case)),
                           lambda: cls.encrypt(junk, case['key']) if hasattr(cls, 'encrypt') else None,
                           lambda: cls.decrypt(junk, case['key']) if hasattr(cls, 'decrypt') else None):
                    try:
                        fn()
                    except Exception:
                        pass
    if k == 'enc':
        alg = CLASSES[case['cls']][1]
        key = case['key']
        r['clear'] = outcome(lambda: build(cls, case).to_bytes(), hb)
        r['enc'] = outcome(lambda: build(cls, case).to_enc_bytes(key), hb)
        if r['enc'].startswith('OK '):
            enc = build(cls, case).to_enc_bytes(key)
            r['dec'] = outcome(lambda: cls.from_enc_bytes(enc, key=key, **from_kw(case)).pin, hs)
        if dom:
            direct = lib_ecb(alg, hex_key(key), clear_ref(case))        # cryptography without cardutil, on the independent block
            r['direct'] = hb(direct)
            r['dec_direct'] = outcome(lambda: cls.from_enc_bytes(direct, key=key, **from_kw(case)).pin, hs)
        return r
    if k == 'dec':
        enc = bytes.fromhex(case['enc'])
        r['dec'] = outcome(lambda: cls.from_enc_bytes(enc, key=case['key'], **from_kw(case)).pin, hs)
        return r
    raise ValueError(k)


# ====================================================================== model side
def tb(b):
    return b.hex() if b else '_'


def table(entries):
    """cipher table for the driver: the points (key, data) -> out at which the external cipher is needed"""
    seen = {}
    for k, d, o in entries:
        seen[(k, d)] = o
    return ','.join('%s:%s:%s' % (tb(k), tb(d), tb(o)) for (k, d), o in seen.items()) or '-'


def ok_bytes(out):
    """the bytes of an implementation outcome 'OK <hex>', None for anything else"""
    if isinstance(out, str) and out.startswith('OK '):
        try:
            return b'' if out[3:] == '-' else bytes.fromhex(out[3:])
        except ValueError:
            return None
    return None


def plan(case, io):
    """[(tag, driver line)] — which model / specification values are asked for this case"""
    k = case['kind']
    io = io if isinstance(io, dict) else {}
    if k == 'kat' and case['alg'] in MODEL_CIPHERS:
        e, d = MODEL_CIPHERS[case['alg']]
        return [('menc', 'cipher %s %s %s' % (e, case['key'] or '-', case['pt'] or '-')), ('mdec', 'cipher %s %s %s' % (d, case['key'] or '-', case['ct'] or '-'))]
    if k == 'kat' or io.get('out') in ('HANG', 'CRASH', 'HARNESS', 'NOTRUN'):
        return []
    dom = in_domain(case)
    fmt, alg, _ = CLASSES[case['cls']]
    out = []
    if k == 'f0':
        pin, pan = hs(case['pin']), hs(case['pan'])
        out.append(('to', 'pin0_to %s %s' % (pin, pan)))
        if dom:
            out.append(('spec', 'pin0_spec %s %s' % (pin, pan)))
        blk = ok_bytes(io.get('to'))
        if blk is not None:
            out.append(('from', 'pin0_from %s %s' % (hb(blk), pan)))
    elif k == 'f4':
        pin, rnd = hs(case['pin']), case['rnd']
        out.append(('to', 'pin4_to %s %s' % (pin, rnd)))
        if dom:
            out.append(('spec', 'pin4_spec %s %s' % (pin, rnd)))
        blk = ok_bytes(io.get('to'))
        if blk is not None:
            out.append(('from', 'pin4_from %s' % hb(blk)))
    elif k == 'f4draw' and not io.get('log') and 'blocks' in io:
        # the code does not draw through secrets.randbits (e.g. secrets.token_bytes): judged by behaviour, as f4real
        for i, b in enumerate(io.get('blocks', [])[1:3]):
            blk = ok_bytes('OK ' + b)
            if blk is not None and len(blk) == 16:
                out.append(('to%d' % i, 'pin4_to %s %d' % (hs(case['pin']), int.from_bytes(blk[8:], 'big'))))
    elif k == 'f4draw':
        pin = hs(case['pin'])
        out.append(('to0', 'pin4_to %s %s' % (pin, case['draws'][0])))
        out.append(('to1', 'pin4_to %s %s' % (pin, case['draws'][1])))
        out.append(('spec2', 'pin4_spec %s %s' % (pin, case['draws'][2])))
        out.append(('from', 'pin4_from %s' % hb(ref_block4(case['pin'], int(case['draws'][0])))))
    elif k == 'f4real':
        for i, b in enumerate(io.get('blocks', [])[1:3]):
            blk = ok_bytes('OK ' + b)
            if blk is not None and len(blk) == 16:
                out.append(('to%d' % i, 'pin4_to %s %d' % (hs(case['pin']), int.from_bytes(blk[8:], 'big'))))
    elif k == 'enc':
        key = hex_key(case['key'])
        usable = key is not None and len(key) in KEY_SIZES[alg]
        clear = clear_ref(case) if dom else ok_bytes(io.get('clear'))
        ent_e, ent_d, ct = [], [], None
        if usable and clear is not None and len(clear) % BLOCK[alg] == 0:
            ct = ref_ecb(alg, key, clear)
            ent_e.append((key, clear, ct))
            ent_d.append((key, ct, clear))
        a = (alg, table(ent_e), hs(case['key']), hs(case['pin']))
        if fmt == 0:
            out.append(('enc', 'pin0_enc %s %s %s %s %s' % (a + (hs(case['pan']),))))
        else:
            out.append(('enc', 'pin4_enc %s %s %s %s %s' % (a + (case['rnd'],))))
        if ct is not None and ok_bytes(io.get('enc')) is not None:
            if fmt == 0:
                out.append(('dec', 'pin0_dec %s %s %s %s %s' % (alg, table(ent_d), hs(case['key']), hb(ct), hs(case['pan']))))
            else:
                out.append(('dec', 'pin4_dec %s %s %s %s' % (alg, table(ent_d), hs(case['key']), hb(ct))))
        if dom and alg in MODEL_CIPHERS:
            # the same through the cipher that lives inside the model: no answer is supplied by the harness
            e, d = MODEL_CIPHERS[alg]
            am = (alg, e, hs(case['key']), hs(case['pin']))
            if fmt == 0:
                out.append(('enc_m', 'pin0_enc %s %s %s %s %s' % (am + (hs(case['pan']),))))
                if ct is not None:
                    out.append(('dec_m', 'pin0_dec %s %s %s %s %s' % (alg, d, hs(case['key']), hb(ct), hs(case['pan']))))
            else:
                out.append(('enc_m', 'pin4_enc %s %s %s %s %s' % (am + (case['rnd'],))))
                if ct is not None:
                    out.append(('dec_m', 'pin4_dec %s %s %s %s' % (alg, d, hs(case['key']), hb(ct))))
    elif k == 'dec':
        key = hex_key(case['key'])
        enc = bytes.fromhex(case['enc'])
        ent = []
        if key is not None and len(key) in KEY_SIZES[alg] and len(enc) % BLOCK[alg] == 0:
            ent.append((key, enc, ref_ecb(alg, key, enc, True)))
        if fmt == 0:
            out.append(('dec', 'pin0_dec %s %s %s %s %s' % (alg, table(ent), hs(case['key']), hb(enc), hs(case['pan']))))
        else:
            out.append(('dec', 'pin4_dec %s %s %s %s' % (alg, table(ent), hs(case['key']), hb(enc))))
    return out


def model_lines(case, io):
    return [l for _, l in plan(case, io)]


def model_says(m, impl_outcome):
    """None when the model has nothing to say or agrees, else a description of the difference"""
    if m is None or m == 'BADOP' or m.startswith('UNMODELLED'):
        return None
    if m == impl_outcome:
        return None
    if m == 'RAISE OTHER:?' and impl_outcome == 'RAISE OTHER:OverflowError':     # no constructor of its own in the model
        return None
    return 'implementation %s, model %s' % (str(impl_outcome)[:80], m[:80])


def spec_value(m):
    """the answer of an extracted specification function, None when there is none"""
    return None if m is None or m == 'BADOP' else m


# ====================================================================== judge
def judge(case, io, mo):
    if io.get('out') in ('HANG', 'CRASH', 'HARNESS', 'NOTRUN'):
        return [{'kind': 'oracle', 'sig': 'outcome-' + io['out'], 'msg': 'implementation outcome %s' % io}]
    k = case['kind']
    if k == 'kat':
        return kat_judge(case, io, mo)
    tags = [t for t, _ in plan(case, io)]
    m = dict(zip(tags, mo)) if mo is not None and len(mo) == len(tags) else {}
    dom = in_domain(case)
    fmt, alg, _ = CLASSES[case['cls']]
    ps, corr = [], []

    def bad(sig, msg):
        ps.append({'kind': 'oracle', 'sig': sig, 'msg': msg})

    def model(tag, impl_outcome, sig):
        d = model_says(m.get(tag), impl_outcome)
        if d:
            corr.append({'kind': 'corr', 'sig': sig, 'msg': '%s: %s' % (sig, d)})

    f = 'f%d' % fmt
    if k in ('f0', 'f4'):
        if dom:
            want = 'OK ' + hb(clear_ref(case))
            okpin = 'OK ' + hs(case['pin'])
            if io['to'] != want:
                bad(f + '-block-differs-from-construction', 'format %d block of a %d-digit PIN: got %s, built from the property text %s'
                    % (fmt, len(case['pin']), io['to'], want))
            sv = spec_value(m.get('spec'))
            if sv is not None and io['to'] != sv:
                bad(f + '-block-differs-from-coq-spec', 'format %d block: got %s, extracted specification %s' % (fmt, io['to'], sv))
            if io.get('from') != okpin:
                bad(f + '-rebuilt-pin-differs', 'PIN rebuilt from the block bytes: %s, expected %s' % (io.get('from'), okpin))
            if io.get('from_ref') != okpin:
                bad(f + '-pin-from-constructed-block-differs', 'PIN read from the independently built block: %s, expected %s'
                    % (io.get('from_ref'), okpin))
            if k == 'f4' and io.get('ndraw_to') != 0:
                bad('f4-supplied-fill-not-used-alone', 'random source asked %s times although a fill was supplied' % io.get('ndraw_to'))
        model('to', io['to'], 'pin%d_to' % fmt)
        if 'from' in io:
            model('from', io['from'], 'pin%d_from' % fmt)
    elif k == 'f4draw' and 'err' not in io and not io.get('log'):
        # no request reached secrets.randbits: another source of randomness is as good (the property asks for 64 fresh
        # random bits per block, not for a particular function).  Judge what can be observed: the documented head, one
        # fill per object, different fills for separately built blocks, the PIN comes back; the model places the SAME fill.
        bl = [ok_bytes('OK ' + b) for b in io['blocks']]
        head = ref_head4(case['pin'])
        if any(b is None or len(b) != 16 or b[:8] != head for b in bl):
            bad('f4-head-differs-from-construction', 'blocks %s do not start with (4, length, PIN, A fill) = %s and 8 more bytes' % (io['blocks'], head.hex()))
        elif bl[0] != bl[1]:
            bad('f4-block-changes-between-calls', 'to_bytes() twice on one object: %s then %s' % tuple(io['blocks'][:2]))
        elif bl[0][8:] == bl[2][8:] and not (case.get('rv') is not None and bl[0][8:] == bytes(8)):
            # (a supplied fill of 0 is outside the property: using the 0 or drawing instead are both fine)
            bad('f4-fill-not-fresh', 'two blocks built without a supplied fill carry the same 64 random bits %s' % bl[0][8:].hex())
        if io['pin'] != hs(case['pin']):
            bad('f4-rebuilt-pin-differs', 'PIN rebuilt from the block bytes differs')
        model('to0', 'OK ' + io['blocks'][1], 'pin4_to')
        model('to1', 'OK ' + io['blocks'][2], 'pin4_to')
    elif k == 'f4draw':
        if 'err' in io:
            bad('f4-draw-raises', 'format 4 block without a supplied fill raised %s' % io['err'])
        else:
            d = [int(x) for x in case['draws']]
            pin = case['pin']
            zero_used = case.get('rv') is not None and io['counts'] == [0, 0, 0, 1, 1]
            if zero_used:
                # a given fill of 0 is outside the property (fills 1..2^64-1): the code draws instead; using the 0 would be as good
                want = [hb(ref_block4(pin, 0))] * 3 + [hb(ref_block4(pin, d[0]))]
                ndraws = 1
            else:
                want = [hb(ref_block4(pin, d[0]))] * 2 + [hb(ref_block4(pin, d[1])), hb(ref_block4(pin, d[2]))]
                ndraws = 3
                if io['counts'] != [1, 1, 2, 3, 3]:
                    bad('f4-draw-count', 'draws after (construct, to_bytes twice, construct again, from_bytes, to_bytes) = %s, expected '
                        '[1, 1, 2, 3, 3]' % io['counts'])
            if not ps and io['log'] != [[64, str(v)] for v in d[:ndraws]]:
                bad('f4-draw-bits', 'random source asked for %s bits, expected 64 each time' % [x[0] for x in io['log']])
            if io['blocks'][0] != io['blocks'][1]:
                bad('f4-block-changes-between-calls', 'to_bytes() twice on one object: %s then %s' % tuple(io['blocks'][:2]))
            if io['blocks'] != want:
                bad('f4-drawn-fill-misplaced', 'blocks %s, expected (4, length, PIN, A fill) followed by the values drawn: %s' % (io['blocks'], want))
            if io['pin'] != hs(pin):
                bad('f4-rebuilt-pin-differs', 'PIN rebuilt from the block bytes differs')
            if not zero_used:
                sv = spec_value(m.get('spec2'))
                if sv is not None and 'OK ' + io['blocks'][3] != sv:
                    bad('f4-block-differs-from-coq-spec', 'format 4 block with drawn fill: got %s, extracted specification %s' % (io['blocks'][3], sv))
                model('to0', 'OK ' + io['blocks'][0], 'pin4_to')
                model('to1', 'OK ' + io['blocks'][2], 'pin4_to')
            model('from', 'OK ' + io['pin'], 'pin4_from')
    elif k == 'f4real':
        if 'err' in io:
            bad('f4-draw-raises', 'format 4 block without a supplied fill raised %s' % io['err'])
        else:
            bl = [ok_bytes('OK ' + b) for b in io['blocks']]
            head = ref_head4(case['pin'])
            if any(b is None or len(b) != 16 or b[:8] != head for b in bl):
                bad('f4-head-differs-from-construction', 'blocks %s do not start with (4, length, PIN, A fill) = %s and 8 more bytes' % (io['blocks'], head.hex()))
            elif bl[0] != bl[1]:
                bad('f4-block-changes-between-calls', 'to_bytes() twice on one object: %s then %s' % tuple(io['blocks'][:2]))
            elif bl[0][8:] == bl[2][8:]:
                bad('f4-fill-not-fresh', 'two blocks built without a supplied fill carry the same 64 random bits %s' % bl[0][8:].hex())
            else:
                fills = [b[8:].hex() for b in (bl[0], bl[2])] + [x[16:] for x in io.get('forked', []) if len(x) == 32]
                if len(set(fills)) != len(fills):
                    bad('f4-fill-not-fresh-across-processes', 'blocks built in this process and in processes forked from it share random bits: %s' % fills)
            if io['pin'] != hs(case['pin']):
                bad('f4-rebuilt-pin-differs', 'PIN rebuilt from the block bytes differs')
            model('to0', 'OK ' + io['blocks'][1], 'pin4_to')
            model('to1', 'OK ' + io['blocks'][2], 'pin4_to')
    elif k == 'enc':
        if dom:
            key = hex_key(case['key'])
            clear = clear_ref(case)
            ct = ref_ecb(alg, key, clear)
            okpin = 'OK ' + hs(case['pin'])
            if ref_ecb(alg, key, ct, True) != clear:
                bad('kat-reference-%s-not-invertible' % alg, 'reference cipher: decrypt(encrypt(x)) != x for key %s' % key.hex())
            if io.get('direct') != hb(ct):
                bad('kat-cryptography-differs-from-reference-' + alg, 'cryptography %s-ECB gives %s, the from-scratch reference %s (key %s, data %s)'
                    % (alg, io.get('direct'), ct.hex(), key.hex(), clear.hex()))
            if io['clear'] != 'OK ' + hb(clear):
                bad(f + '-block-differs-from-construction', 'clear block %s, built from the property text %s' % (io['clear'], clear.hex()))
            if io['enc'] != 'OK ' + hb(ct):
                bad(f + '-' + alg + '-ciphertext-differs', 'encrypted block %s; %s-ECB of the clear block under the key is %s' % (io['enc'], alg, ct.hex()))
            if io.get('dec') != okpin:
                bad(f + '-' + alg + '-decrypt-pin-differs', 'PIN from the encrypted block: %s, expected %s' % (io.get('dec'), okpin))
            if io.get('dec_direct') != okpin:
                bad(f + '-' + alg + '-decrypt-pin-differs', 'PIN from the independently encrypted block: %s, expected %s' % (io.get('dec_direct'), okpin))
        model('enc', io['enc'], 'pin%d_enc' % fmt)
        if 'dec' in io:
            model('dec', io['dec'], 'pin%d_dec' % fmt)
        if 'enc_m' in m:
            model('enc_m', io['enc'], 'pin%d_enc_model_%s' % (fmt, alg))
        if 'dec_m' in m and 'dec_direct' in io:
            model('dec_m', io['dec_direct'], 'pin%d_dec_model_%s' % (fmt, alg))
    elif k == 'dec':
        model('dec', io['dec'], 'pin%d_dec' % fmt)
    # outside the property's domain (non-digit PINs, malformed keys, arbitrary blocks ...) the code's behaviour is not
    # prescribed: a disagreement with the model there is not reported (a harmless rewrite may change it)
    return ps if ps else (corr if dom else [])


def nontrivial(case, io):
    return in_domain(case)


def panb(pan):
    n = len(pan)
    return 'pan<13' if n < 13 else 'pan13-15' if n <= 15 else 'pan16' if n == 16 else 'pan17-19' if n <= 19 else 'pan20+'


def label(case):
    k = case['kind']
    if k == 'kat':
        return 'kat/' + case['alg']
    if k == 'dec':
        return 'outside/dec/' + case['cls']
    if not in_domain(case):
        return 'outside/%s/%s' % (k, case['cls'])
    s = '%s/pin%02d' % (k, len(case['pin']))
    if k == 'f0':
        s += '/' + panb(case['pan'])
    if k == 'f4draw':
        s += '/fill-0-given' if case.get('rv') is not None else '/no-fill-given'
    if k == 'enc':
        s = 'enc/%s/key%d/pin%s' % (case['cls'], len(hex_key(case['key'])), '04-09' if len(case['pin']) < 10 else '10-12')
    return s
