"""C14 — Visa PVV, key check values, combination of key components, encrypted zone keys
(cardutil/pinblock.py calculate_pvv / VisaPVVPinBlockMixin, cardutil/key.py).

The judge builds the transformed security parameter nibble by nibble from the property text, encrypts it with the
from-scratch TDEA reference of props/c13.py, decimalises the result with its own two-scan routine, and XORs key
components nibble-wise; cryptography is also called directly (without cardutil) and must agree with the reference."""
import itertools
from util import hb, hs, unhs, outcome
from props.c13 import (MODEL_CIPHERS, rand_kat_cases, tdes_key_bundle, kat_cases, kat_impl, kat_judge, lib_ecb, ref_ecb, is_digits, digits, pan_field, pack, nibbles, hex_key,
                       table, model_says, spec_value, rdigits, rkey)

ID = 'C14'
RULE = ('PVV: PINs of 4..12 digits x PANs of 12..19 digits x key index 0..9 x TDES keys of 8/16/24 random bytes (upper/lower case '
        'hex), through calculate_pvv and through to_pvv of the format 0 and format 4 block classes; the transformed security '
        'parameter is built from nibble lists, encrypted with the from-scratch TDEA reference and decimalised by the judge\'s own '
        'two-scan routine. The second scan is driven to contribute 0,1,2,3,4 digits (a) by replacing only the external cipher '
        'object with a stub that returns chosen ciphertexts (every count 0..16 of decimal nibbles, at the front, at the back and '
        'scattered) while recording the key and the data handed to it, (b) by real keys found by search whose true ciphertexts have '
        '0..4 decimal nibbles. Key components: lists of 0..5 components of 32 hex digits (also shorter ones, mixed case) in every '
        'order (all permutations up to 4, sampled for 5), with a component repeated twice in any two places; clear key compared '
        'with the nibble-wise XOR, check value and encrypted zone key with the reference cipher, master keys of 8/16/24 bytes; '
        'key check values of every length 0..32 and beyond for keys of 8/16/24 bytes. Known-answer vectors for DES/TDEA/AES and the '
        'documented values of cardutil. Inputs outside the property (short PINs/PANs, key index above 9, non-digit characters, '
        'bad keys, components that are not 1..32 hex digits) are compared with the model only. Non-trivial = distinct case inside '
        'the property (or a known-answer vector)')
EXHAUSTIVE = {}
ASSUMPTIONS = [
    'the cipher is external: cryptography\'s TripleDES is compared with a from-scratch FIPS 46-3 reference on every case and '
    'with published known-answer vectors on every run, not proved',
    'the PVV needs a PAN of at least 12 digits (11 digits before the check digit); shorter PANs are outside the property',
    'key components are 1..32 hex digits (either case) read as 128-bit numbers; a key check value length is >= 0',
]

ZERO16 = bytes(16)
TDES_SIZES = (8, 16, 24)

# Real (key, PAN, PIN, key index, digits contributed by the second scan).  Found once by a search with cryptography:
# for a fixed key, random 11-digit account parts x all 100000 (key index, 4-digit PIN) tails were encrypted in bulk
# (TripleDES-ECB) and the ciphertexts with fewer than four decimal nibbles kept; the tuples with no decimal nibble at all
# (probability (6/16)^16 = 1.5e-7 each) turned up after 0.2 to 10 million trials per key.  PANs are the account part with
# arbitrary leading digits and an arbitrary last digit (excluded as the check digit); longer PINs only add ignored digits.
REAL_PVV = [
    ('0123456789ABCDEFFEDCBA9876543210', '4000778865013650', '2993', 0, 1),
    ('0123456789ABCDEFFEDCBA9876543210', '778865013657', '695512', 0, 1),
    ('0123456789ABCDEFFEDCBA9876543210', '4000778865013651', '2552', 0, 2),
    ('0123456789ABCDEFFEDCBA9876543210', '55778865013658', '323700000000', 5, 2),
    ('0123456789ABCDEFFEDCBA9876543210', '4000778865013652', '9526', 9, 3),
    ('0123456789ABCDEFFEDCBA9876543210', '9999999118703216043', '04389', 6, 3),
    ('0123456789ABCDEFFEDCBA9876543210', '4000118703216049', '1786', 3, 4),
    ('0123456789abcdeffedcba9876543210', '118703216040', '178699', 3, 4),
    ('5CA64B3C22BEC347CA7E6609904BAAED', '4564088328208950', '1270', 0, 1),
    ('5CA64B3C22BEC347CA7E6609904BAAED', '99088328208952', '3050', 0, 1),
    ('5CA64B3C22BEC347CA7E6609904BAAED', '4564088328208953', '3797', 0, 2),
    ('5CA64B3C22BEC347CA7E6609904BAAED', '12088328208954', '92471234', 2, 2),
    ('5CA64B3C22BEC347CA7E6609904BAAED', '4564356831743925', '5265', 2, 3),
    ('5CA64B3C22BEC347CA7E6609904BAAED', '283723141586', '0602', 1, 3),
    ('5CA64B3C22BEC347CA7E6609904BAAED', '4564775617788567', '6265', 0, 4),
    ('5CA64B3C22BEC347CA7E6609904BAAED', '123456775617788568', '626500', 0, 4),
    ('0123456789abcdef23456789abcdef01456789abcdef0123', '4000783314616290', '1604', 0, 1),
    ('0123456789abcdef23456789abcdef01456789abcdef0123', '4000783314616291', '23281', 0, 1),
    ('0123456789abcdef23456789abcdef01456789abcdef0123', '4000783314616292', '0223', 5, 2),
    ('0123456789abcdef23456789abcdef01456789abcdef0123', '783314616293', '0363', 5, 2),
    ('0123456789abcdef23456789abcdef01456789abcdef0123', '4000783314616294', '8536', 5, 3),
    ('0123456789ABCDEF23456789ABCDEF01456789ABCDEF0123', '61195173159145', '044512345678', 3, 3),
    ('0123456789abcdef23456789abcdef01456789abcdef0123', '4000406145513496', '6226', 3, 4),
    ('0123456789ABCDEF23456789ABCDEF01456789ABCDEF0123', '8406145513497', '622677', 3, 4),
    ('133457799bbcdff1', '4000370350807730', '2215', 0, 1),
    ('133457799bbcdff1', '4000370350807731', '2396', 0, 2),
    ('133457799bbcdff1', '4000504305911292', '1210', 1, 3),
    ('133457799bbcdff1', '4000325298297013', '0489', 8, 4),
]
# documented results (docstrings and tests of cardutil)
DOC_PVV = [
    ('func', '1234', '1111222233334444', 1, '00' * 16, '6264'),
    ('iso0', '1234', '1111222233334444', 1, '00' * 16, '6264'),
    ('iso0d', '1234', '1111222233334444', 1, '00' * 16, '6264'),
    ('iso4', '1234', '1111222233334444', 1, '00' * 16, '6264'),
    ('iso4', '6666', '1111222233334444', 1, '00' * 8, '1703'),
    ('func', '2205', '4564320000980369', 1, '5CA64B3C22BEC347CA7E6609904BAAED', '3856'),
    ('func', '0654', '4564320000980369', 1, '5CA64B3C22BEC347CA7E6609904BAAED', '0885'),
]
K1, K2 = '6D6BE51F04F76167491554FE25F7ABEF', '67499B2CF137DFCB9EA28FF757CD10A7'


# ====================================================================== the property, built from its text
def ref_tsp(pan, kidx, pin):
    """11 rightmost PAN digits excluding the check digit, key index, 4 leftmost PIN digits — 16 nibbles"""
    return pan_field(pan, 11) + [kidx] + digits(pin)[:4]


def decimalise(nibs):
    """first four decimal digits of the hex result; if fewer, A-F mapped to 0-5 in a second scan"""
    out = []
    for n in nibs:                       # scan 1
        if n <= 9 and len(out) < 4:
            out.append(n)
    for n in nibs:                       # scan 2, only reached when scan 1 left places open
        if n >= 10 and len(out) < 4:
            out.append(n - 10)
    return out


def substituted(nibs):
    return max(0, 4 - sum(1 for n in nibs if n <= 9))


def dstr(ds):
    return ''.join('0123456789'[d] for d in ds)


def hexstr(nibs):
    return ''.join('0123456789abcdef'[n] for n in nibs)


def is_hex(s):
    return isinstance(s, str) and all(c in '0123456789abcdefABCDEF' for c in s)


def part_ok(p):
    return is_hex(p) and 1 <= len(p) <= 32


def part_nibbles(p):
    v = ['0123456789abcdef'.index(c) for c in p.lower()]
    return [0] * (32 - len(v)) + v


def ref_combine(parts):
    """nibble-wise XOR of the components, starting from zeros: 32 nibbles"""
    acc = [0] * 32
    for p in parts:
        acc = [a ^ b for a, b in zip(acc, part_nibbles(p))]
    return acc


def ref_kcv(key, n=6):
    """the n leading hex digits of the TDEA encryption of zeros under the key"""
    return hexstr(nibbles(ref_ecb('tdes', key, ZERO16))[:n])


def tdes_key(key):
    k = hex_key(key)
    return k if k is not None and len(k) in TDES_SIZES else None


def pvv_domain(case):
    return (is_digits(case['pin']) and 4 <= len(case['pin']) <= 12 and is_digits(case['pan']) and len(case['pan']) >= 12
            and isinstance(case['kidx'], int) and 0 <= case['kidx'] <= 9 and tdes_key(case['key']) is not None)


def in_domain(case):
    k = case['kind']
    if k == 'kat':
        return True
    if k in ('pvv', 'pvvstub'):
        return pvv_domain(case)
    if k in ('zmk', 'zmkdup'):
        return all(part_ok(p) for p in case['parts']) and (k == 'zmk' or part_ok(case['k']))
    if k == 'enczmk':
        return all(part_ok(p) for p in case['parts']) and tdes_key(case['master']) is not None
    if k == 'kcv':
        return len(bytes.fromhex(case['key'])) in TDES_SIZES and (case['n'] is None or case['n'] >= 0)
    return False


# ====================================================================== generation
def mixcase(rng, s):
    r = rng.random()
    return s.upper() if r < 0.3 else s.lower() if r < 0.6 else ''.join(c.upper() if rng.random() < 0.5 else c.lower() for c in s)


def rpart(rng, n=32):
    return mixcase(rng, ''.join(rng.choice('0123456789abcdef') for _ in range(n)))


def chosen_ct(rng, ndec, style):
    """a 16-nibble ciphertext with ndec decimal nibbles: at the front, at the back, or scattered"""
    dec = [rng.randrange(10) for _ in range(ndec)]
    let = [rng.randrange(10, 16) for _ in range(16 - ndec)]
    if style == 'front':
        nibs = dec + let
    elif style == 'back':
        nibs = let + dec
    else:
        pos = set(rng.sample(range(16), ndec))
        nibs = [dec.pop() if i in pos else let.pop() for i in range(16)]
    return pack(nibs).hex()


def orders_for(rng, n, tier):
    if n <= 4:
        return [list(p) for p in itertools.permutations(range(n))]
    allp = list(itertools.permutations(range(n)))
    return [list(range(n)), list(range(n))[::-1]] + [list(p) for p in rng.sample(allp, 22 if tier == 'quick' else 60)]


def gen(rng, tier):
    reps = 2 if tier == 'quick' else 40
    cases = [c for c in kat_cases() + rand_kat_cases(rng, 40 if tier == 'quick' else 1000) if c['alg'] == 'tdes']
    vias = ['func', 'iso0', 'iso4', 'iso0d']
    for via, pin, pan, kidx, key, want in DOC_PVV:
        cases.append({'kind': 'pvv', 'via': via, 'pin': pin, 'pan': pan, 'kidx': kidx, 'key': key, 'expect': want})
    for i, (key, pan, pin, kidx, sub) in enumerate(REAL_PVV):
        for via in ('func', 'iso0', 'iso4'):
            cases.append({'kind': 'pvv', 'via': via, 'pin': pin, 'pan': pan, 'kidx': kidx, 'key': key, 'real_sub': sub})
    cases.append({'kind': 'zmk', 'parts': [K1.lower(), K2.lower()], 'orders': [[0, 1], [1, 0]],
                  'expect': ['0a227e33f5c0beacd7b7db09723abb48', '05ee1d']})
    cases.append({'kind': 'enczmk', 'master': '00' * 16, 'parts': [K1, K2], 'orders': [[0, 1], [1, 0]],
                  'expect': ['06ed6dbd8e7d3a9431a9df6ab329df3e', '05ee1d']})
    cases.append({'kind': 'kcv', 'key': '67C4A7191ADAFD086432CE0DD6384AB8', 'n': None, 'expect': '20d40b'})
    cases.append({'kind': 'kcv', 'key': '67C4A7191ADAFD086432CE0DD6384AB8', 'n': 8, 'expect': '20d40bfb'})
    cases.append({'kind': 'kcv', 'key': '00' * 16, 'n': 6, 'expect': '8ca64d'})
    for _ in range(reps):
        # ---- PVV with the real cipher
        for ln in range(4, 13):
            for pl in range(12, 20):
                for ks in TDES_SIZES:
                    for _j in range(4 if ks != 8 else 2):
                        kidx = rng.randrange(10)
                        via = rng.choice(vias)
                        cases.append({'kind': 'pvv', 'via': via, 'pin': rdigits(rng, ln), 'pan': rdigits(rng, pl),
                                      'kidx': 1 if via == 'iso0d' else kidx, 'key': rkey(rng, ks)})
        for kidx in range(10):
            for via in vias[:3]:
                for d in '0123456789':      # every digit value in every TSP position over the loop
                    pan = ''.join(rng.choice('0123456789') if rng.random() < 0.7 else d for _ in range(rng.randrange(12, 20)))
                    pin = ''.join(rng.choice('0123456789') if rng.random() < 0.5 else d for _ in range(rng.randrange(4, 13)))
                    cases.append({'kind': 'pvv', 'via': via, 'pin': pin, 'pan': pan, 'kidx': kidx, 'key': rkey(rng, rng.choice([16, 24]))})
        # ---- PVV with the cipher object replaced: chosen ciphertexts
        for ndec in range(0, 17):
            for style in ('front', 'back', 'mixed', 'mixed'):
                for _j in range(6 if ndec < 5 else 3):
                    cases.append({'kind': 'pvvstub', 'via': rng.choice(vias[:3]), 'pin': rdigits(rng, rng.randrange(4, 13)),
                                  'pan': rdigits(rng, rng.randrange(12, 20)), 'kidx': rng.randrange(10),
                                  'key': rkey(rng, rng.choice(TDES_SIZES)), 'ct': chosen_ct(rng, ndec, style)})
        for ct in ('abcdefabcdefabcd', 'ffffffffffffffff', 'aaaaaaaaaaaaaaaa', 'fedcbafedcbafedc', 'abcdefabcdefa123', '123abcdefabcdefa',
                   'a1b2c3dddddddddd', 'abcdefabcdef1abc', 'f9eeeeeeeeeeeee8', 'bbbbbbbbbbbbbbb7', '0000000000000000', '9999999999999999',
                   '0123456789abcdef', 'fedcba9876543210', 'a0b0c0d0e0f0a0b0', 'ffffffffffff1234', 'ffffffffffffff12', '1fffffffffffffff'):
            for via in vias[:3]:
                cases.append({'kind': 'pvvstub', 'via': via, 'pin': rdigits(rng, rng.randrange(4, 13)), 'pan': rdigits(rng, rng.randrange(12, 20)),
                              'kidx': rng.randrange(10), 'key': rkey(rng, rng.choice(TDES_SIZES)), 'ct': ct})
        # ---- key components in every order
        for n in (0, 1, 2, 3, 4, 5):
            for j in range(1 if n == 0 else 12 if n < 5 else 4):
                parts = [rpart(rng) for _ in range(n)]
                if j == 4 and n:
                    parts[rng.randrange(n)] = rpart(rng, rng.choice([1, 2, 15, 31]))
                if j == 5 and n:
                    parts = [rpart(rng, rng.choice([1, 8, 16, 30, 31, 32])) for _ in range(n)]
                od = orders_for(rng, n, tier)
                cases.append({'kind': 'zmk', 'parts': parts, 'orders': od})
                cases.append({'kind': 'enczmk', 'master': rkey(rng, rng.choice([16, 24, 16, 24, 8])), 'parts': parts,
                              'orders': od[:6] if n < 5 else od[:4]})
        for parts in (['0' * 32], ['f' * 32], ['F' * 32, '0' * 32], ['f' * 32, 'F' * 32], ['1', '2', '4', '8'], ['0' * 31 + '1', '8' + '0' * 31],
                      ['0123456789abcdef0123456789ABCDEF'] * 3, ['a' * 32, '5' * 32, 'F' * 32]):
            cases.append({'kind': 'zmk', 'parts': parts, 'orders': orders_for(rng, len(parts), tier)})
        # ---- a component given twice cancels
        for n in (0, 1, 2, 3, 4):
            for _j in range(5):
                parts = [rpart(rng) for _ in range(n)]
                k = rpart(rng) if _j else rpart(rng, rng.choice([1, 16, 31]))
                pos = sorted([rng.randrange(n + 1), rng.randrange(n + 1)])
                cases.append({'kind': 'zmkdup', 'parts': parts, 'k': k, 'pos': pos, 'same_text': rng.random() < 0.5})
        # ---- encrypted zone keys, masters of every size
        for ks in TDES_SIZES:
            for n in (1, 2, 3):
                for _j in range(4):
                    parts = [rpart(rng) for _ in range(n)]
                    cases.append({'kind': 'enczmk', 'master': rkey(rng, ks), 'parts': parts, 'orders': orders_for(rng, n, tier)[:3]})
        cases.append({'kind': 'enczmk', 'master': '00' * 16, 'parts': [], 'orders': [[]]})       # both cipher calls coincide
        cases.append({'kind': 'enczmk', 'master': '00' * 16, 'parts': ['ab' * 16, 'AB' * 16], 'orders': [[0, 1], [1, 0]]})
        # ---- key check values of every length
        for ks in TDES_SIZES:
            key = bytes(rng.randrange(256) for _ in range(ks)).hex()
            for n in list(range(0, 34)) + [40, 64, 1000, None]:
                cases.append({'kind': 'kcv', 'key': key, 'n': n})
            for _j in range(10):
                cases.append({'kind': 'kcv', 'key': bytes(rng.randrange(256) for _ in range(ks)).hex(), 'n': rng.choice([None, 4, 6, 6, 8, 16])})
        # ---- outside the property: correspondence with the model only
        # two legitimate requests whose arguments read the same when simply strung together (PAN N, index c, PIN dXXXX and
        # PAN N+c, index d, PIN XXXX; a 17-digit PAN and an 18-digit one ...): the second must not get the first one's answer
        for _ in range(12):
            key = rkey(rng, rng.choice([8, 16, 24]))
            n16, c, d = rdigits(rng, 16), rng.randrange(10), rng.randrange(10)
            p4 = rdigits(rng, 4)
            a = {'pin': str(d) + p4, 'pan': n16, 'kidx': c}
            b = {'pin': p4, 'pan': n16 + str(c), 'kidx': d}
            for first, second in ((a, b), (b, a)):
                for via in ('func', 'iso0'):
                    cases.append(dict({'kind': 'pvv', 'via': via, 'key': key, 'warm': [first]}, **second))
        good = rkey(rng, 16)
        for via in vias[:3]:
            for pin, pan, kidx, key in (
                    ('', rdigits(rng, 16), 1, good), ('1', rdigits(rng, 16), 1, good), ('123', rdigits(rng, 16), 1, good),
                    ('12a4', rdigits(rng, 16), 1, good), ('12g4', rdigits(rng, 16), 1, good), ('ABCD99', rdigits(rng, 16), 1, good),
                    ('1234', '', 1, good), ('1234', '1', 1, good), ('1234', rdigits(rng, 11), 1, good), ('1234', rdigits(rng, 5), 3, good),
                    ('1234', '11112222g3334444', 1, good), ('1234', 'abcdefabcdefabcd', 1, good), ('1234', '1111-2222-3333-4444', 1, good),
                    ('1234', rdigits(rng, 16), 10, good), ('1234', rdigits(rng, 16), 12, good), ('1234', rdigits(rng, 16), 100, good),
                    ('123', rdigits(rng, 16), 10, good), ('12', rdigits(rng, 16), 123, good), ('1234', rdigits(rng, 10), 10, good),
                    ('1234', rdigits(rng, 16), 1, ''), ('1234', rdigits(rng, 16), 1, rkey(rng, 7)), ('1234', rdigits(rng, 16), 1, rkey(rng, 12)),
                    ('1234', rdigits(rng, 16), 1, rkey(rng, 32)), ('1234', rdigits(rng, 16), 1, good[:-1]), ('1234', rdigits(rng, 16), 1, 'g' + good[1:]),
                    ('1234', rdigits(rng, 16), 1, 'é' + good[1:]), ('12', rdigits(rng, 16), 1, good[:-1]), ('1234', '', 1, rkey(rng, 7)),
                    ('é234', rdigits(rng, 16), 1, good), ('1234', rdigits(rng, 15) + '٣', 1, good), ('1234', rdigits(rng, 14) + '٣4', 1, good)):
                cases.append({'kind': 'pvv', 'via': via, 'pin': pin, 'pan': pan, 'kidx': kidx, 'key': key})
        for parts in ([''], ['g' * 32], [rpart(rng), 'xyz'], [rpart(rng, 33)], [rpart(rng, 34)], [rpart(rng, 40), rpart(rng)], ['1' + '0' * 32, '1' + '0' * 32],
                      [rpart(rng, 48)], ['0x' + rpart(rng, 30)], [' ' + rpart(rng, 30) + ' '], ['1_0'], ['-1'], ['+1'], [rpart(rng), ''], ['٣' * 4],
                      ['é'], [rpart(rng, 64)], [rpart(rng, 40)] * 2):
            cases.append({'kind': 'zmk', 'parts': parts, 'orders': [list(range(len(parts))), list(range(len(parts)))[::-1]]})
            cases.append({'kind': 'enczmk', 'master': good, 'parts': parts, 'orders': [list(range(len(parts)))]})
        for master in ('', '00', rkey(rng, 7), rkey(rng, 12), rkey(rng, 32), good[:-1], 'g' + good[1:], 'é' + good[1:], good + ' '):
            cases.append({'kind': 'enczmk', 'master': master, 'parts': [rpart(rng), rpart(rng)], 'orders': [[0, 1]]})
        for n in (0, 1, 7, 9, 15, 17, 23, 25, 32):
            cases.append({'kind': 'kcv', 'key': bytes(rng.randrange(256) for _ in range(n)).hex(), 'n': rng.choice([None, 6, 0])})
    return cases


# ====================================================================== implementation side (worker process)
def hse(s):
    return hs(s) if s else '_'


def pair(t):
    return '%s,%s' % (hse(t[0]), hse(t[1]))


def pvv_call(case):
    from cardutil import pinblock
    via, pin, pan, kidx, key = case['via'], case['pin'], case['pan'], case['kidx'], case['key']
    if via == 'func':
        return lambda: pinblock.calculate_pvv(pin, key, kidx, pan)
    if via == 'iso0':
        return lambda: pinblock.Iso0TDESPinBlockWithVisaPVV(pin, card_number=pan).to_pvv(pvv_key=key, key_index=kidx)
    if via == 'iso0d':         # default key index (1)
        return lambda: pinblock.Iso0TDESPinBlockWithVisaPVV(pin, card_number=pan).to_pvv(pvv_key=key)
    if via == 'iso4':
        return lambda: pinblock.Iso4AESPinBlockWithVisaPVV(pin).to_pvv(key, kidx, card_number=pan)
    raise ValueError(via)


def impl(case):
    import warnings
    warnings.simplefilter('ignore')
    k = case['kind']
    if k == 'kat':
        return kat_impl(case)
    if k == 'pvv':
        from cardutil import pinblock
        for w in case.get('warm', ()):          # earlier calls in the same process
            try:
                pvv_call(dict(case, **w))()
            except Exception:
                pass
        import zlib
        if zlib.crc32(repr(sorted(case.items())).encode()) % 3 == 0:
            # an earlier request under the SAME key that fails (a PIN of two digits, a PAN of ten, a key index of three
            # digits: the data to encrypt is then not a whole block): what it leaves behind must not reach the next one
            for bad in ({'pin': '12'}, {'pan': '4' * 10}, {'kidx': 123}):
                try:
                    pvv_call(dict(case, **bad))()
                except Exception:
                    pass
        r = {'pvv': outcome(pvv_call(case), hs)}
        if hasattr(pinblock, '_get_tsp'):
            r['tsp'] = outcome(lambda: pinblock._get_tsp(case['pan'], case['kidx'], case['pin']), hs)
        if pvv_domain(case):
            tsp = pack(ref_tsp(case['pan'], case['kidx'], case['pin']))
            r['direct'] = hb(lib_ecb('tdes', hex_key(case['key']), tsp))      # cryptography without cardutil, on the independent TSP
        return r
    if k == 'pvvstub':
        from cardutil import pinblock
        calls = []
        ct = bytes.fromhex(case['ct'])

        class StubOp:
            def __init__(self, c):
                self.c = c

            def update(self, data):
                calls.append([type(self.c.algorithm).__name__, bytes(getattr(self.c.algorithm, 'key', b'')).hex(),
                              type(self.c.mode).__name__, bytes(data).hex()])
                return ct

            def finalize(self):
                return b''

        # the stub sits in the cryptography package itself (Cipher.encryptor), not in a name of the library's modules: where
        # and how the library builds its cipher object is its own business.  If the stub is never reached (another
        # backend), the case says so and is not judged
        from cryptography.hazmat.primitives.ciphers import Cipher as RealCipher
        old = RealCipher.encryptor
        RealCipher.encryptor = lambda self: StubOp(self)
        try:
            r = {'pvv': outcome(pvv_call(case), hs)}
        finally:
            RealCipher.encryptor = old
        r['calls'] = calls
        return r
    from cardutil import key as keymod
    if k == 'zmk':
        return {'outs': [outcome(lambda: keymod.get_zone_master_key(*[case['parts'][i] for i in od]), pair) for od in case['orders']]}
    if k == 'zmkdup':
        return {'base': outcome(lambda: keymod.get_zone_master_key(*case['parts']), pair),
                'dup': outcome(lambda: keymod.get_zone_master_key(*dup_parts(case)), pair),
                'kk': outcome(lambda: keymod.get_zone_master_key(*dup_parts(dict(case, parts=[], pos=[0, 0]))), pair)}
    if k == 'enczmk':
        return {'outs': [outcome(lambda: keymod.get_enc_zone_master_key(case['master'], *[case['parts'][i] for i in od]), pair)
                         for od in case['orders']],
                'clear': outcome(lambda: keymod.get_zone_master_key(*case['parts']), pair)}
    if k == 'kcv':
        kb = bytes.fromhex(case['key'])
        if case['n'] is None:
            return {'kcv': outcome(lambda: keymod.calculate_kcv(kb), hs)}
        return {'kcv': outcome(lambda: keymod.calculate_kcv(kb, case['n']), hs)}
    raise ValueError(k)


def dup_parts(case):
    """the components with k inserted at two places (the second time possibly in the other letter case)"""
    k = case['k']
    k2 = k if case.get('same_text', True) else k.swapcase()
    p = list(case['parts'])
    i, j = case['pos']
    p.insert(j, k2)
    p.insert(i, k)
    return p


# ====================================================================== model side
def plist(parts):
    return ','.join(hse(p) for p in parts) or '-'


def out_pair(out):
    """(key, kcv) strings of an implementation outcome 'OK <str>,<str>', None otherwise"""
    if not (isinstance(out, str) and out.startswith('OK ') and ',' in out):
        return None
    try:
        a, b = out[3:].split(',')
        return ('' if a == '_' else unhs(a)), ('' if b == '_' else unhs(b))
    except ValueError:
        return None


def zmk_entries(parts, outs, master=None):
    """cipher points needed by get_zone_master_key / get_enc_zone_master_key: the independently combined key when the
    components are inside the property, else the key the implementation reported"""
    keys = []
    if all(part_ok(p) for p in parts):
        keys.append(pack(ref_combine(parts)))
    else:
        for o in outs:
            p = out_pair(o)
            kb = hex_key(p[0]) if p else None
            if kb is not None:
                keys.append(kb)
    ent = []
    mk = tdes_key(master) if master is not None else None
    for kb in keys:
        if len(kb) in TDES_SIZES:
            ent.append((kb, ZERO16, ref_ecb('tdes', kb, ZERO16)))
            if mk is not None and len(kb) % 8 == 0:
                ent.append((mk, kb, ref_ecb('tdes', mk, kb)))
    return ent


def plan(case, io):
    k = case['kind']
    io = io if isinstance(io, dict) else {}
    if k == 'kat' and case['alg'] in MODEL_CIPHERS:
        e, d = MODEL_CIPHERS[case['alg']]
        return [('menc', 'cipher %s %s %s' % (e, case['key'] or '-', case['pt'] or '-')), ('mdec', 'cipher %s %s %s' % (d, case['key'] or '-', case['ct'] or '-'))]
    if k == 'kat' or io.get('out') in ('HANG', 'CRASH', 'HARNESS', 'NOTRUN'):
        return []
    dom = in_domain(case)
    out = []
    if k in ('pvv', 'pvvstub'):
        pin, pan, key, kidx = hs(case['pin']), hs(case['pan']), hs(case['key']), case['kidx']
        out.append(('tsp', 'tsp %s %d %s' % (pan, kidx, pin)))
        kb = tdes_key(case['key'])
        ent = []
        if dom:
            tsp = pack(ref_tsp(case['pan'], kidx, case['pin']))
            ct = bytes.fromhex(case['ct']) if k == 'pvvstub' else ref_ecb('tdes', kb, tsp)
            ent.append((kb, tsp, ct))
            out.append(('tsp_spec', 'tsp_spec %s %d %s' % (pan, kidx, pin)))
            out.append(('pvv_ct', 'pvv_ct ' + hb(ct)))
            out.append(('pvv_spec', 'pvv_spec ' + hb(ct)))
        elif k == 'pvv' and kb is not None and isinstance(io.get('tsp'), str) and io['tsp'].startswith('OK '):
            tb_ = hex_key(unhs(io['tsp'][3:]))
            if tb_ is not None and len(tb_) % 8 == 0:
                ent.append((kb, tb_, ref_ecb('tdes', kb, tb_)))
        op = 'pvv' if case['via'] == 'func' else 'to_pvv'
        out.append(('pvv', '%s %s %s %s %d %s' % (op, table(ent), pin, key, kidx, pan)))
        if dom and k == 'pvv':
            # the same with Triple-DES computed INSIDE the model (no cipher answer supplied by the harness)
            out.append(('pvv_m', '%s TDES %s %s %d %s' % (op, pin, key, kidx, pan)))
    elif k == 'zmk':
        parts = case['parts']
        ods = case['orders']
        for tag, od in (('xor_first', ods[0]), ('xor_last', ods[-1])):
            out.append((tag, 'xor_parts ' + plist([parts[i] for i in od])))
        if dom and all(len(p) == 32 for p in parts):
            out.append(('xor_spec', 'xor_spec ' + plist(parts)))
        ent = zmk_entries(parts, io.get('outs', []))
        out.append(('zmk', 'zmk %s %s' % (table(ent), plist([parts[i] for i in ods[-1]]))))
    elif k == 'zmkdup':
        p = dup_parts(case)
        ent = zmk_entries(p, [io.get('dup')])
        out.append(('xor', 'xor_parts ' + plist(p)))
        if dom and all(len(x) == 32 for x in p):
            out.append(('xor_spec', 'xor_spec ' + plist(p)))
        out.append(('zmk', 'zmk %s %s' % (table(ent), plist(p))))
    elif k == 'enczmk':
        parts = case['parts']
        od = case['orders'][-1]
        ent = zmk_entries(parts, [io.get('clear')], master=case['master'])
        out.append(('enc_zmk', 'enc_zmk %s %s %s' % (table(ent), hs(case['master']), plist([parts[i] for i in od]))))
        if dom:
            out.append(('enc_zmk_m', 'enc_zmk TDES %s %s' % (hs(case['master']), plist([parts[i] for i in od]))))
    elif k == 'kcv':
        kb = bytes.fromhex(case['key'])
        n = 6 if case['n'] is None else case['n']
        ent = []
        if len(kb) in TDES_SIZES:
            ct = ref_ecb('tdes', kb, ZERO16)
            ent.append((kb, ZERO16, ct))
            out.append(('kcv_ct', 'kcv_ct %s %d' % (hb(ct), n)))
        out.append(('kcv', 'kcv %s %s %d' % (table(ent), hb(kb), n)))
        if dom:
            out.append(('kcv_m', 'kcv TDES %s %d' % (hb(kb), n)))
    return out


def model_lines(case, io):
    return [l for _, l in plan(case, io)]


# ====================================================================== judge
def judge(case, io, mo):
    if io.get('out') in ('HANG', 'CRASH', 'HARNESS', 'NOTRUN'):
        return [{'kind': 'oracle', 'sig': 'outcome-' + io['out'], 'msg': 'implementation outcome %s' % io}]
    k = case['kind']
    if k == 'kat':
        return kat_judge(case, io, mo)
    tags = [t for t, _ in plan(case, io)]
    m = dict(zip(tags, mo)) if mo is not None and len(mo) == len(tags) else {}
    dom = in_domain(case)
    ps, corr = [], []

    def bad(sig, msg):
        ps.append({'kind': 'oracle', 'sig': sig, 'msg': msg})

    def model(tag, impl_outcome, sig):
        d = model_says(m.get(tag), impl_outcome)
        if d:
            corr.append({'kind': 'corr', 'sig': sig, 'msg': '%s: %s' % (sig, d)})

    def spec(tag, impl_outcome, sig, what):
        sv = spec_value(m.get(tag))
        if sv is not None and sv != impl_outcome:
            bad(sig, '%s: implementation %s, extracted specification %s' % (what, impl_outcome, sv))

    if k == 'pvvstub' and not io.get('calls'):
        return []          # the stub was not reached: nothing known about the ciphertext, nothing to judge
    if k in ('pvv', 'pvvstub'):
        if dom:
            kb = tdes_key(case['key'])
            tspn = ref_tsp(case['pan'], case['kidx'], case['pin'])
            tsp = pack(tspn)
            if k == 'pvv':
                ct = ref_ecb('tdes', kb, tsp)
                if io.get('direct') != hb(ct):
                    bad('kat-cryptography-differs-from-reference-tdes', 'cryptography TDES-ECB gives %s, the from-scratch reference %s (key %s, data %s)'
                        % (io.get('direct'), ct.hex(), kb.hex(), tsp.hex()))
            else:
                ct = bytes.fromhex(case['ct'])
                want_calls = [['TripleDES', kb.hex(), 'ECB', tsp.hex()]]
                # cryptography keeps the key as the bundle K1 K2 K3 (8 bytes: K K K, 16 bytes: K1 K2 K1)
                bundle = [['TripleDES', b''.join(tdes_key_bundle(kb)).hex(), 'ECB', tsp.hex()]]
                if io['calls'] != want_calls and io['calls'] != bundle:
                    bad('pvv-cipher-input-differs', 'cipher object used as %s, expected one TDES-ECB encryption of the TSP under the key: %s'
                        % (io['calls'], want_calls))
            pvv = decimalise(nibbles(ct))
            want = 'OK ' + hs(dstr(pvv))
            nsub = substituted(nibbles(ct))
            if io['pvv'] != want:
                bad('pvv-differs-sub%d%s' % (nsub, '-pin-longer-than-4' if len(case['pin']) > 4 else ''),
                    'PVV of a %d-digit PIN (ciphertext %s, %d digits from the second scan): got %s, expected %s (%s)'
                    % (len(case['pin']), ct.hex(), nsub, io['pvv'], want, dstr(pvv)))
            got = io['pvv'][3:] if io['pvv'].startswith('OK ') else ''
            if not (len(got) == 16 and all(got[i:i + 3] == '003' and got[i + 3] in '0123456789' for i in range(0, 16, 4))):
                bad('pvv-not-four-decimal-digits', 'PVV is not four decimal digits: %s' % io['pvv'])
            if 'expect' in case and io['pvv'] != 'OK ' + hs(case['expect']):
                bad('pvv-documented-value', 'documented PVV %s, got %s' % (case['expect'], io['pvv']))
            if 'real_sub' in case and case['real_sub'] != nsub:
                bad('kat-real-key-list', 'hard-coded tuple expected to need %d substituted digits needs %d' % (case['real_sub'], nsub))
            mine = 'OK ' + hs(dstr(tspn))
            spec('tsp_spec', mine, 'kat-tsp-construction-differs-from-coq-spec', 'TSP built from the property text by the harness')
            spec('pvv_spec', io['pvv'], 'pvv-differs-from-coq-spec', 'decimalisation of %s' % ct.hex())
            model('pvv_ct', io['pvv'], 'pvv_of_ct')
            if 'tsp' in io and not io['tsp'].startswith('RAISE OTHER:AttributeError'):
                if io['tsp'] != mine:
                    bad('pvv-tsp-differs-from-construction', 'transformed security parameter %s, built from the property text %s' % (io['tsp'], mine))
                spec('tsp_spec', io['tsp'], 'pvv-tsp-differs-from-coq-spec', 'transformed security parameter')
        if 'tsp' in io and not io['tsp'].startswith('RAISE OTHER:AttributeError'):
            model('tsp', io['tsp'], 'get_tsp')
        model('pvv', io['pvv'], 'calculate_pvv' if case['via'] == 'func' else 'to_pvv')
        if 'pvv_m' in m:
            model('pvv_m', io['pvv'], 'pvv_with_model_tdes')
    elif k in ('zmk', 'enczmk'):
        outs = io['outs']
        if dom:
            comb = ref_combine(case['parts'])
            kb = pack(comb)
            kcv = ref_kcv(kb)
            first = hexstr(comb) if k == 'zmk' else ref_ecb('tdes', tdes_key(case['master']), kb).hex()
            want = 'OK ' + pair((first, kcv))
            if len(set(outs)) > 1:
                bad(k + '-depends-on-component-order', 'different orders of the same components give %s' % sorted(set(outs))[:2])
            for o in outs:
                if o != want:
                    p = out_pair(o)
                    if p is None or p[0] != first:
                        bad(k + ('-key-not-xor-of-components' if k == 'zmk' else '-not-encryption-of-xor'),
                            '%d components: got %s, expected %s' % (len(case['parts']), p[0] if p else o, first))
                    else:
                        bad(k + '-check-value-differs', 'key check value %s, expected %s' % (p[1], kcv))
                    break
            if 'expect' in case and outs[0] != 'OK ' + pair(case['expect']):
                bad(k + '-documented-value', 'documented result %s, got %s' % (case['expect'], out_pair(outs[0])))
            if k == 'zmk':
                spec('xor_spec', 'OK ' + hs(out_pair(outs[0])[0]) if out_pair(outs[0]) else outs[0], 'zmk-differs-from-coq-spec', 'combined key')
        if k == 'zmk':
            for tag, o in (('xor_first', outs[0]), ('xor_last', outs[-1])):
                p = out_pair(o)
                if p:                    # a raise may come from a later step than the combination
                    model(tag, 'OK ' + hs(p[0]), 'zmk_combine')
            model('zmk', outs[-1], 'get_zone_master_key')
        else:
            model('enc_zmk', outs[-1], 'get_enc_zone_master_key')
            if 'enc_zmk_m' in m:
                model('enc_zmk_m', outs[-1], 'get_enc_zone_master_key_with_model_tdes')
    elif k == 'zmkdup':
        if dom:
            comb = ref_combine(case['parts'])
            want = (hexstr(comb), ref_kcv(pack(comb)))
            zero = ('0' * 32, ref_kcv(bytes(16)))
            base, dup, kk = [out_pair(io[x]) or (io[x], io[x]) for x in ('base', 'dup', 'kk')]
            if base[0] != want[0]:
                bad('zmk-key-not-xor-of-components', '%d components: got %s, expected %s' % (len(case['parts']), base[0], want[0]))
            if dup[0] != base[0] or dup[0] != want[0]:
                bad('zmk-repeated-component-does-not-cancel', 'with a component given twice: %s, without: %s' % (dup[0], base[0]))
            if kk[0] != zero[0]:
                bad('zmk-repeated-component-does-not-cancel', 'a component given twice alone: %s, expected zeros' % kk[0])
            if not ps and (base[1], dup[1], kk[1]) != (want[1], want[1], zero[1]):
                bad('zmk-check-value-differs', 'key check values %s, expected %s' % ([base[1], dup[1], kk[1]], [want[1], want[1], zero[1]]))
            p = out_pair(io['dup'])
            spec('xor_spec', 'OK ' + hs(p[0]) if p else io['dup'], 'zmk-differs-from-coq-spec', 'combined key')
        p = out_pair(io['dup'])
        if p:
            model('xor', 'OK ' + hs(p[0]), 'zmk_combine')
        model('zmk', io['dup'], 'get_zone_master_key')
    elif k == 'kcv':
        if dom:
            kb = bytes.fromhex(case['key'])
            n = 6 if case['n'] is None else case['n']
            want = 'OK ' + hs(ref_kcv(kb, n))
            if io['kcv'] != want:
                bad('kcv-differs', 'key check value of length %s for a %d-byte key: got %s, expected %s' % (case['n'], len(kb), io['kcv'], want))
            if 'expect' in case and io['kcv'] != 'OK ' + hs(case['expect']):
                bad('kcv-documented-value', 'documented check value %s, got %s' % (case['expect'], io['kcv']))
            model('kcv_ct', io['kcv'], 'kcv_of_ct')
        model('kcv', io['kcv'], 'calculate_kcv')
        if 'kcv_m' in m:
            model('kcv_m', io['kcv'], 'calculate_kcv_with_model_tdes')
    # outside the property's domain (non-digit PINs, malformed keys, arbitrary blocks ...) the code's behaviour is not
    # prescribed: a disagreement with the model there is not reported (a harmless rewrite may change it)
    return ps if ps else (corr if dom else [])


def nontrivial(case, io):
    return in_domain(case)


def label(case):
    k = case['kind']
    if k == 'kat':
        return 'kat/' + case['alg']
    if not in_domain(case):
        return 'outside/' + k
    if k in ('pvv', 'pvvstub'):
        kb = tdes_key(case['key'])
        if k == 'pvv':
            ct = ref_ecb('tdes', kb, pack(ref_tsp(case['pan'], case['kidx'], case['pin'])))
        else:
            ct = bytes.fromhex(case['ct'])
        src = 'stub-cipher' if k == 'pvvstub' else 'real-key-found-by-search' if 'real_sub' in case else 'real-cipher'
        return 'pvv/%s/%s/second-scan-gives-%d' % (src, case['via'], substituted(nibbles(ct)))
    if k in ('zmk', 'enczmk'):
        return '%s/%d-components/%d-orders' % (k, len(case['parts']), len(case['orders']))
    if k == 'zmkdup':
        return 'zmkdup/%d-components+2' % len(case['parts'])
    if k == 'kcv':
        n = case['n']
        return 'kcv/key%d/%s' % (len(case['key']) // 2, 'default' if n is None else 'n0-6' if n <= 6 else 'n7-32' if n <= 32 else 'n33+')
    return k
