"""C15 — Luhn check digits; validation rejects in every interpreter mode."""
import itertools
from util import hs, unhs, outcome

ID = 'C15'
RULE = ('digit strings: all strings up to a length bound exhaustively, random strings to 40 digits with separators, '
        'every single-digit substitution and adjacent transposition of sampled valid numbers; each case runs in a normal '
        'and in a python -O worker; non-trivial = distinct string of at least 2 digits')
EXHAUSTIVE = {}
ASSUMPTIONS = ['digit strings are ASCII digits (non-ASCII digit characters are outside the property)']
SEPS = ' -./'


THREADS = True

def gen(rng, tier):
    cases = []
    maxlen = 4 if tier == 'quick' else 5
    for n in range(0, maxlen + 1):
        for t in itertools.product('0123456789', repeat=n):
            cases.append({'kind': 'calc', 's': ''.join(t)})
    nvalid = 150 if tier == 'quick' else 2500
    for _ in range(nvalid):
        n = rng.choice([1, 2, 3, 8, 12, 15, 16, 18, 19, 25, 39])
        body = ''.join(rng.choice('0123456789') for _ in range(n))
        cases.append({'kind': 'calc', 's': body})
        sep = ''.join(c + (rng.choice(SEPS) if rng.random() < 0.2 else '') for c in body)
        cases.append({'kind': 'calc', 's': sep})
        cases.append({'kind': 'append', 's': body})
        cases.append({'kind': 'append', 's': sep})
        cases.append({'kind': 'mutate', 's': body})
    for s in ['', '0', '9', '7992739871', '0' * 40, '9' * 40, '09' * 20, '90' * 20]:
        cases.append({'kind': 'calc', 's': s})
        cases.append({'kind': 'append', 's': s})
        if s:
            cases.append({'kind': 'mutate', 's': s})
    out = []
    for c in cases:
        out.append(dict(c, py_flags=[]))
        if c['kind'] != 'calc' or len(c['s']) > 3:
            out.append(dict(c, py_flags=['-O']))
    return out


def mutants(valid):
    """every single-digit substitution and every adjacent transposition (different digits, not 0/9)"""
    res = []
    for i, ch in enumerate(valid):
        for d in '0123456789':
            if d != ch:
                res.append(valid[:i] + d + valid[i + 1:])
    for i in range(len(valid) - 1):
        a, b = valid[i], valid[i + 1]
        if a != b and {a, b} != {'0', '9'}:
            res.append(valid[:i] + b + a + valid[i + 2:])
    return res


def impl(case):
    from cardutil import card
    s = case['s']
    # the functions are called positionally or by their documented parameter name, in turn (by the content of the case)
    import zlib
    kw = bool(zlib.crc32(s.encode('utf8', 'replace')) & 1)
    calc = (lambda x: card.calculate_check_digit(card_number=x)) if kw else card.calculate_check_digit
    add = (lambda x: card.add_check_digit(card_number=x)) if kw else card.add_check_digit
    val = (lambda x: card.validate_check_digit(card_number=x)) if kw else card.validate_check_digit
    digits = ''.join(ch for ch in s if ch.isdigit())
    if len(digits) >= 7 and zlib.crc32(s.encode('utf8', 'replace')) % 3 == 0:
        # earlier calls in the same process on RELATED numbers: the same first six digits with a body one digit longer
        # (the other length parity), the same number without its first digit, the same digits with one more
        for rel in (digits[:6] + '5' * (len(digits) - 5), digits[:6] + digits[7:], digits[1:], digits + '0', digits[:-1]):
            for fn in (calc, add, lambda x: val(add(x))):
                try:
                    fn(rel)
                except Exception:
                    pass
    if case['kind'] == 'calc':
        return {'calc': outcome(lambda: calc(s), hs)}
    if case['kind'] == 'append':
        full = outcome(lambda: add(s), hs)
        r = {'add': full}
        if full.startswith('OK '):
            r['validate'] = outcome(lambda: val(unhs(full[3:])), lambda _: '-')
        return r
    if case['kind'] == 'mutate':
        valid = add(s)
        r = {'valid': hs(valid), 'validate': outcome(lambda: val(valid), lambda _: '-'), 'mut': []}
        for m in mutants(valid):
            r['mut'].append(outcome(lambda: val(m), lambda _: '-'))
        return r
    raise ValueError(case['kind'])


def model_lines(case, impl_out):
    s = case['s']
    if case['kind'] == 'calc':
        return ['luhn_calc ' + hs(s)]
    if case['kind'] == 'append':
        return ['luhn_add ' + hs(s)]
    if case['kind'] == 'mutate':
        digits = ''.join(c for c in s if c.isdigit())
        # the model computes the valid number, validates it and gives the spec's verdict on it
        return ['luhn_add ' + hs(digits)]
    return []


def judge(case, io, mo):
    ps = []
    if io.get('out') in ('HANG', 'CRASH', 'HARNESS', 'NOTRUN'):
        return [{'kind': 'oracle', 'sig': 'outcome-' + io['out'], 'msg': 'implementation outcome %s' % io}]
    k = case['kind']
    mode = 'O' if case.get('py_flags') else 'N'
    if k == 'calc':
        if mo is not None and mo[0] != io['calc']:
            # the model is proved to return the Luhn digit, so a different digit is a property failure
            ps.append({'kind': 'oracle', 'sig': 'calc-differs-from-luhn-digit',
                       'msg': 'check digit of %r: impl %s, proved model %s' % (case['s'], io['calc'], mo[0])})
    elif k == 'append':
        if mo is not None and mo[0] != io['add']:
            ps.append({'kind': 'oracle', 'sig': 'add-differs', 'msg': 'add_check_digit(%r): impl %s model %s' % (case['s'], io['add'], mo[0])})
        if io['add'].startswith('OK ') and io.get('validate') != 'OK -':
            ps.append({'kind': 'oracle', 'sig': 'appended-number-rejected-mode-' + mode,
                       'msg': 'number with computed check digit does not validate: %s' % io.get('validate')})
    elif k == 'mutate':
        if io['validate'] != 'OK -':
            ps.append({'kind': 'oracle', 'sig': 'valid-number-rejected-mode-' + mode, 'msg': 'valid number rejected'})
        if mo is not None and mo[0] != 'OK ' + io['valid']:
            ps.append({'kind': 'oracle', 'sig': 'add-differs', 'msg': 'valid number differs from model: %s vs %s' % (io['valid'], mo[0])})
        bad = [i for i, o in enumerate(io['mut']) if o != 'RAISE ASSERT']
        if bad:
            ps.append({'kind': 'oracle', 'sig': 'mutant-accepted-mode-' + mode,
                       'msg': '%d single-digit substitutions / transpositions of %s not rejected with AssertionError (first outcome: %s)'
                       % (len(bad), unhs(io['valid']), io['mut'][bad[0]])})
    return ps


def nontrivial(case, io):
    return sum(c.isdigit() for c in case['s']) >= 2


def label(case):
    n = sum(c.isdigit() for c in case['s'])
    b = '0-1' if n < 2 else '2-5' if n <= 5 else '6-19' if n <= 19 else '20-40'
    return '%s/%s/len%s' % (case['kind'], 'O' if case.get('py_flags') else 'N', b)
