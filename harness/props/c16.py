"""C16 — masking never discloses more than the first six and last four digits."""
from util import hb, hs, unhs, outcome
import isoutil as iu

ID = 'C16'
RULE = ('card numbers of length 10..40 (and shorter ones for the correspondence) over digits and arbitrary characters x mask '
        'characters; messages decoded under generated configurations that put the PAN / PAN-PREFIX processor on variable-length '
        'elements (PAN lengths 10..19 and longer), searching every string of the returned dictionary for the clear PAN; '
        'non-trivial = distinct case with a PAN of at least 11 characters')
CODEC_ALIASES = True     # one implementation run in three is given an alias spelling of the codec name (worker.for_impl)
CALL_VARIANTS = True     # bytearray messages, positional arguments and earlier failing calls around the harness's loads / dumps calls (worker.install_call_variants)
EXHAUSTIVE = {}
ASSUMPTIONS = ['exceptions carry the raw message bytes as context data: not part of the returned dictionary',
               'numbers shorter than 10 characters are outside the stated domain']


THREADS = True


def thread_ok(case):
    return case['kind'] != 'switch'

def gen(rng, tier):
    cases = []
    for n in range(0, 41):
        for mc in ('*', 'X', '#', '•', '0'):
            for mode in ('digits', 'any'):
                s = ''.join(rng.choice('0123456789') for _ in range(n)) if mode == 'digits' else iu.rand_text(rng, 'latin_1', n)
                cases.append({'kind': 'mask', 's': s, 'mc': mc})
    pk = iu.packaged()
    for i in range(900 if tier == 'quick' else 30000):
        cfg = iu.gen_config(rng)
        var = [k for k, c in cfg.items() if c['field_type'] != 'FIXED' and not c.get('field_processor') and c.get('field_python_type') in (None, 'string')]
        if not var:
            continue
        k = rng.choice(var)
        proc = rng.choice(['PAN', 'PAN-PREFIX'])
        cfg[k]['field_processor'] = proc
        codec = rng.choice(['latin_1', 'cp500', 'ascii', 'cp037'])
        m = iu.rand_message(rng, cfg, codec, with_pds=False, nbits=rng.choice([1, 3, 6]))
        vmax = 99 if cfg[k]['field_type'] == 'LLVAR' else 200
        n = rng.choice([10, 11, 13, 16, 19, min(vmax, 25), rng.randint(10, min(vmax, 60))])
        pan = ''.join(rng.choice('0123456789') for _ in range(n))
        while len(set(pan[6:-4])) < 2 and n > 11:
            pan = ''.join(rng.choice('0123456789') for _ in range(n))
        m['DE' + k] = pan
        try:
            b = iu.ref_wire(m, cfg, codec, False)
        except (iu.Refused, UnicodeEncodeError):
            continue
        if i % 5 == 1:
            # the processor on a FIXED element wider than the number: the value is the number and its blank padding, and the
            # mask covers positions 6 .. len-5 of THAT (what survives at the end is padding and the digits before it)
            fixed = [kk for kk, cc in cfg.items() if cc['field_type'] == 'FIXED' and not cc.get('field_processor') and cc.get('field_python_type') in (None, 'string') and cc['field_length'] >= 14]
            if fixed:
                kf = rng.choice(fixed)
                w = cfg[kf]['field_length']
                cfg2 = dict(cfg)
                cfg2[kf] = dict(cfg[kf], field_processor=proc)
                short = ''.join(rng.choice('0123456789') for _ in range(w - rng.choice([1, 2, 3, 3])))
                m2 = dict(m)
                m2.pop('DE' + k, None)
                m2['DE' + kf] = short
                try:
                    b2 = iu.ref_wire(m2, cfg2, codec, False)
                    cases.append({'kind': 'decode', 'cfg': cfg2, 'codec': codec, 'bytes': b2.hex(), 'pan': short.ljust(w), 'bit': kf, 'proc': proc})
                except (iu.Refused, UnicodeEncodeError):
                    pass
        if i % 5 == 3:
            # the processor COMBINED with a numeric python type on the same element (decoding only: the bytes above were laid
            # out from the text): the prefix comes back as a number, the masked form is not a number and is refused - in
            # neither case may the clear PAN come back
            cfg = dict(cfg)
            cfg[k] = dict(cfg[k], field_python_type=rng.choice(['int', 'long', 'decimal']))
            cases.append({'kind': 'decode', 'cfg': cfg, 'codec': codec, 'bytes': b.hex(), 'pan': pan, 'bit': k, 'proc': proc, 'typed': True})
            continue
        cases.append({'kind': 'decode', 'cfg': cfg, 'codec': codec, 'bytes': b.hex(), 'pan': pan, 'bit': k, 'proc': proc})
        if i % 4 == 0:
            # the same message decoded in one process under the configuration with the processor switched in place
            # (none -> PAN -> PAN-PREFIX -> none), and under fresh copies of the configuration created and dropped
            cases.append({'kind': 'switch', 'cfg': cfg, 'codec': codec, 'bytes': b.hex(), 'pan': pan, 'bit': k})
    return cases


def impl(case):
    if case['kind'] == 'mask':
        from cardutil import card
        if (len(case['s']) + ord(case['mc'][0])) % 2:       # by keyword / positionally, in turn
            return {'out': outcome(lambda: card.mask(card_number=case['s'], mask_char=case['mc']), hs)}
        return {'out': outcome(lambda: card.mask(case['s'], case['mc']), hs)}
    from cardutil import iso8583
    b = bytes.fromhex(case['bytes'])
    if case['kind'] == 'switch':
        import copy
        import gc
        cfg, k = case['cfg'], case['bit']
        outs = []
        for mode in ('inplace', 'fresh'):
            for proc in (None, 'PAN', 'PAN-PREFIX', None, 'PAN'):
                c = cfg if mode == 'inplace' else copy.deepcopy(cfg)
                if proc:
                    c[k]['field_processor'] = proc
                else:
                    c[k].pop('field_processor', None)
                try:
                    outs.append([mode, proc, iso8583.loads(b, encoding=case['codec'], iso_config=c).get('DE' + k)])
                except Exception as ex:
                    outs.append([mode, proc, 'RAISE ' + type(ex).__name__])
                del c
                gc.collect()
        return {'out': 'OK', 'seq': outs}
    via = len(case['bytes']) % 4
    if via == 0:
        return {'out': outcome(lambda: iso8583.loads(b, encoding=case['codec'], iso_config=case['cfg']), iu.dict_text)}
    # the same record read from a one-record file by IpmReader; the configuration reaches the reader through the
    # constructor, through its public attributes after construction, or through a subclass that computes them
    import io
    from cardutil import mciipm
    data = len(b).to_bytes(4, 'big') + b + bytes(4)

    def read():
        if via == 1:
            r = mciipm.IpmReader(io.BytesIO(data), encoding=case['codec'], iso_config=case['cfg'])
        elif via == 2:
            r = mciipm.IpmReader(io.BytesIO(data))
            r.encoding, r.iso_config = case['codec'], case['cfg']
        else:
            class Reader(mciipm.IpmReader):
                iso_config = property(lambda self: case['cfg'], lambda self, v: None)
                encoding = property(lambda self: case['codec'], lambda self, v: None)
            r = Reader(io.BytesIO(data))
        return next(r)
    return {'out': outcome(read, iu.dict_text)}


def model_lines(case, io_):
    if case['kind'] == 'mask':
        return ['mask %s %s' % (hs(case['s']), hs(case['mc']))]
    if case['kind'] == 'switch':
        return []
    return ['loads %s %s 0 %s' % (iu.cfg_text(case['cfg']), iu.hs(case['codec']), case['bytes'])]


def judge(case, io_, mo):
    ps = []
    o = io_['out']
    if case['kind'] == 'mask':
        s, mc = case['s'], case['mc']
        if len(s) >= 10:
            if not o.startswith('OK '):
                return [{'kind': 'oracle', 'sig': 'mask-failed', 'msg': o}]
            m = unhs(o[3:])
            if len(m) != len(s) or m[:6] != s[:6] or m[-4:] != s[-4:] or any(ch != mc for ch in m[6:-4]):
                ps.append({'kind': 'oracle', 'sig': 'mask-shape', 'msg': 'mask(%r) = %r' % (s, m)})
        # fewer than 10 characters: outside the property (a rewrite may treat such input differently), not compared
        if mo is not None and not ps and len(s) >= 10 and mo[0] != o:
            ps.append({'kind': 'corr', 'sig': 'mask', 'msg': 'mask differs from model: %s vs %s' % (o, mo[0])})
        return ps
    if case['kind'] == 'switch':
        pan = case['pan']
        for mode, proc, got in io_['seq']:
            want = pan if proc is None else pan[:6] + '*' * (len(pan) - 10) + pan[-4:] if proc == 'PAN' else pan[:9]
            if got != want:
                return [{'kind': 'oracle', 'sig': 'stale-configuration-' + mode, 'msg': 'after switching the processor to %s (%s) the element decodes to %r, expected %r' % (proc, mode, got, want)}]
        return []
    if case.get('typed'):
        # refused with the library error (a masked value is not a number) or returned as the number of the prefix
        pan, key = case['pan'], 'DE' + case['bit']
        if o.startswith('OK '):
            d = iu.dict_of_text(o[3:])
            v = d.get(key)
            clear = [k for k, x in d.items() if not isinstance(x, (bytes, bytearray)) and str(x).lstrip('0') == pan.lstrip('0') and len(pan) > 10]
            if clear:
                ps.append({'kind': 'oracle', 'sig': 'clear-pan-in-dictionary', 'msg': 'the clear PAN appears under %s (numeric element with %s)' % (clear, case['proc'])})
            elif case['proc'] == 'PAN-PREFIX' and str(v).lstrip('0') != pan[:9].lstrip('0'):
                ps.append({'kind': 'oracle', 'sig': 'not-masked-PAN-PREFIX', 'msg': '%s = %r, expected the number %s' % (key, v, pan[:9])})
        elif o != 'RAISE DATAERR':
            ps.append({'kind': 'oracle', 'sig': 'decode-failed', 'msg': 'decoding failed with %s' % o})
        if mo is not None and not ps and not mo[0].startswith('UNMODELLED'):
            same = (mo[0] == o) if not o.startswith('OK ') else (mo[0].startswith('OK ') and iu.canon_entries(mo[0][3:], drop_other=True) == iu.canon_entries(o[3:], drop_other=True))
            if not same:
                ps.append({'kind': 'corr', 'sig': 'loads', 'msg': 'loads differs from model: %s vs %s' % (o[:80], mo[0][:80])})
        return ps
    if not o.startswith('OK '):
        return [{'kind': 'oracle', 'sig': 'decode-failed', 'msg': 'decoding a well-formed message failed: %s' % o}]
    d = iu.dict_of_text(o[3:])
    pan, key = case['pan'], 'DE' + case['bit']
    want = pan[:6] + '*' * (len(pan) - 10) + pan[-4:] if case['proc'] == 'PAN' else pan[:9]
    if d.get(key) != want:
        ps.append({'kind': 'oracle', 'sig': 'not-masked-' + case['proc'], 'msg': '%s = %r, expected %r' % (key, d.get(key), want)})
    leak = [k for k, v in d.items() if isinstance(v, str) and pan in v] + [k for k, v in d.items() if isinstance(v, bytes) and pan.encode(case['codec']) in v]
    if leak and len(pan) > (10 if case['proc'] == 'PAN' else 9):
        ps.append({'kind': 'oracle', 'sig': 'clear-pan-in-dictionary', 'msg': 'the clear PAN appears under %s' % leak})
    if mo is not None and not ps and not mo[0].startswith('UNMODELLED'):
        if not mo[0].startswith('OK ') or iu.canon_entries(mo[0][3:], drop_other=True) != iu.canon_entries(o[3:], drop_other=True):
            ps.append({'kind': 'corr', 'sig': 'loads', 'msg': 'loads differs from model'})
    return ps


def nontrivial(case, io_):
    return len(case['s']) >= 11 if case['kind'] == 'mask' else len(case['pan']) >= 11


def label(case):
    if case['kind'] == 'mask':
        n = len(case['s'])
        return 'mask/len=%s' % ('<10' if n < 10 else '10-19' if n < 20 else '20-40')
    if case['kind'] == 'switch':
        return 'switch-configuration'
    return 'decode/%s/%s' % (case['proc'], case['cfg'][case['bit']]['field_type'])
