"""C17 — file inspection recognises writer output: validity, encoding family, blocking."""
import io
from util import hb, outcome
import isoutil as iu
from props.framing import in_stream
from props.framing import B, BLK

ID = 'C17'
RULE = ('IPM files produced by IpmWriter over well-formed messages x 12 codecs x {VBS, 1014} x every block count 1..9 (record '
        'sizes chosen to land on each count); invalid classes at their boundaries: 23/24 bytes, first length MAX / MAX+1, each '
        'unconfigured bitmap bit incl. bit 128; arbitrary byte samples for the correspondence; non-trivial = distinct file of '
        'at least 24 bytes')
CODEC_ALIASES = True     # one implementation run in three is given an alias spelling of the codec name (worker.for_impl)
EXHAUSTIVE = {}
ASSUMPTIONS = ['an unblocked file whose bytes 1012-1013 are both 0x40 may be reported blocked (stated exception)']


def gen(rng, tier):
    cases = []
    pk = iu.packaged()
    for blocks in range(1, 10):
        for rep in range(6 if tier == 'quick' else 40):
            codec = iu.CODECS[(blocks * 7 + rep) % len(iu.CODECS)]
            msgs = []
            size = 0
            target = (blocks - 1) * B + rng.randrange(30, B - 30)
            while True:
                m = iu.rand_message_fit(rng, pk, codec, nbits=rng.choice([2, 5, 12]), with_pds=False)
                try:
                    n = len(iu.ref_wire(m, pk, codec, False)) + 4
                except (iu.Refused, UnicodeEncodeError):
                    continue
                if size + n + 4 > target and msgs:
                    break
                msgs.append(iu.dict_text(m))
                size += n
                if size + 4 > target:
                    break
            for blocked in (True, False):
                cases.append({'kind': 'writer', 'codec': codec, 'blocked': blocked, 'msgs': msgs})
    for codec in iu.CODECS:
        for blocked in (True, False):
            cases.append({'kind': 'writer', 'codec': codec, 'blocked': blocked, 'msgs': [iu.dict_text({'MTI': '1240', 'DE2': '4444555566667777'})]})
    # records whose bytes end exactly on, just before and just after a 1012-byte payload boundary (the length prefix, the
    # record body or the terminator completing a block), alone and after a short first record
    ends = [k * B + d for k in (1, 2, 3) for d in (-6, -5, -4, -3, -2, -1, 0, 1, 2, 3, 4, 5)]
    # (all of them in the quick tier too: 36 small files)
    for e in ends:
        for first in (0, rng.choice([30, 200, 990])):
            n = e - 4 - (first + 4 if first else 0)
            if not 24 <= n <= 4028 or (first and first < 24):
                continue
            codec = rng.choice(['latin_1', 'cp500'])
            msgs = ([iu.dict_text(iu.sized_message(rng, first))] if first else []) + [iu.dict_text(iu.sized_message(rng, n))]
            if rng.random() < 0.5:
                msgs.append(iu.dict_text({'MTI': '1240', 'DE2': '4444555566667777'}))
            cases.append({'kind': 'writer', 'codec': codec, 'blocked': True, 'msgs': msgs})
    # invalid classes
    base = b'\x00\x00\x00\x22' + b'1240' + bytes.fromhex('c0000000000000000000000000000000') + b'164444555566667777' + b'\x00' * 4
    for n in (0, 1, 23, 24, 25):
        cases.append({'kind': 'raw', 'file': (base * 2)[:n].hex(), 'expect': 'invalid' if n < 24 else 'valid'})
    for ln in (6000, 6001, 5999, 0x40404040):
        cases.append({'kind': 'raw', 'file': (ln.to_bytes(4, 'big') + base[4:]).hex(), 'expect': 'invalid' if ln > 6000 else 'valid'})
    for bit in range(2, 129):
        bm = bytearray(16)
        bm[0] = 0x80
        bm[(bit - 1) // 8] |= 1 << (7 - (bit - 1) % 8)
        cases.append({'kind': 'raw', 'file': (base[:8] + bytes(bm) + base[24:]).hex(), 'expect': 'valid' if str(bit) in pk else 'invalid'})
    for _ in range(600 if tier == 'quick' else 20000):
        n = rng.choice([24, 100, 1013, 1014, 1015, 2027, 2028, 2029, 2500, 3042])
        f = bytearray(rng.randrange(256) for _ in range(n))
        f[0:4] = rng.choice([0, 50, 6000]).to_bytes(4, 'big')
        if rng.random() < 0.7:
            f[8:24] = bytes.fromhex('c0000000000000000000000000000000')
        if rng.random() < 0.5:
            f[4:8] = rng.choice([b'1240', b'\xf1\xf2\xf4\xf0', b'12\xb240', b'\xf1\xf2\xb2\xf0', b'abcd'])
        for pos in (1012, 1013, 2026, 2027):
            if pos < n and rng.random() < 0.6:
                f[pos] = 0x40
        cases.append({'kind': 'raw', 'file': bytes(f).hex(), 'expect': None})
    return cases


def the_file(case):
    from cardutil import mciipm
    if case['kind'] == 'raw':
        return bytes.fromhex(case['file'])
    f = io.BytesIO()
    with mciipm.IpmWriter(f, encoding=case['codec'], blocked=case['blocked']) as w:
        for t in case['msgs']:
            w.write(iu.dict_of_text(t))
    return f.getvalue()


def impl(case):
    from cardutil import mciipm
    f = the_file(case)

    def run():
        i = mciipm.ipm_info(in_stream(f))          # io.BytesIO or a buffered forward-only stream, by content
        if not i['isValidIPM']:
            return 'INVALID reason=%s' % ('yes' if i.get('reason') else 'none')
        return 'VALID %s %s' % ('1' if i['isBlocked'] else '0', i['encoding'])
    return {'out': outcome(run), 'file': f.hex()}


def model_lines(case, io_):
    return ['ipm_info ' + (io_['file'] or '-')]


def judge(case, io_, mo):
    ps = []
    o = io_['out']
    f = bytes.fromhex(io_['file'])
    if not o.startswith('OK '):
        return [{'kind': 'oracle', 'sig': 'inspection-failed', 'msg': o}]
    r = o[3:].split(' ')
    if case['kind'] == 'writer':
        fam = 'latin1' if case['codec'] in iu.ASCII_CODECS else 'cp037'
        if r[0] != 'VALID':
            ps.append({'kind': 'oracle', 'sig': 'writer-file-invalid', 'msg': 'writer output reported invalid'})
        else:
            if r[2] != fam:
                ps.append({'kind': 'oracle', 'sig': 'wrong-encoding-family', 'msg': '%s file reported as %s' % (case['codec'], r[2])})
            if case['blocked'] and r[1] != '1':
                ps.append({'kind': 'oracle', 'sig': 'blocked-file-reported-unblocked', 'msg': 'blocked file of %d blocks reported unblocked' % (len(f) // BLK)})
            if not case['blocked'] and r[1] != '0' and f[1012:1014] != b'\x40\x40':
                ps.append({'kind': 'oracle', 'sig': 'unblocked-file-reported-blocked', 'msg': 'unblocked file reported blocked'})
    elif case['expect'] == 'invalid':
        if r[0] != 'INVALID' or r[1] != 'reason=yes':
            ps.append({'kind': 'oracle', 'sig': 'invalid-input-not-reported', 'msg': 'invalid input reported as %s' % o})
    elif case['expect'] == 'valid' and r[0] != 'VALID':
        ps.append({'kind': 'oracle', 'sig': 'valid-input-rejected', 'msg': o})
    if mo is not None and not ps:
        m = mo[0][3:].split(' ')
        same = (m[0] == r[0] == 'INVALID') or (m[0] == r[0] == 'VALID' and m[1:] == r[1:])
        if not same:
            ps.append({'kind': 'corr', 'sig': 'ipm_info', 'msg': 'ipm_info differs from model: %s vs %s' % (o, mo[0])})
    return ps


def nontrivial(case, io_):
    return len(io_.get('file', '')) >= 48


def label(case):
    if case['kind'] == 'writer':
        return 'writer/%s/%s' % ('1014' if case['blocked'] else 'vbs', 'ascii' if case['codec'] in iu.ASCII_CODECS else 'ebcdic')
    return 'raw/%s' % (case['expect'] or 'arbitrary')
