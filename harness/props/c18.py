"""C18 — IPM table extraction (IpmParamReader, mci_ipm_param_to_csv) returns exactly the requested table's rows and columns."""
import csv
import io
import random

from util import hs, exc_class
from props.framing import vbs_ref, block_ref, he

ID = 'C18'
RULE = ('synthetic extract files built by an independent builder (texts -> codec -> 4-byte length framing -> optional 1014 '
        'blocking): 0..6 index rows with random table/sub-id assignments (duplicate-free sub ids), index trailer, 0..30 data rows of '
        'several tables interleaved (also unknown sub ids / unindexed tables), bodies full length, cut short or empty, printable or '
        'any of the 256 characters; every packaged table and generated layouts passed via param_config=; compressed and expanded; '
        'latin_1 / cp500 (plus cp037); blocked and unblocked; files without trailer, tables without / with empty configuration; '
        'the same logical rows in both representations; every 4th case also through mci_ipm_param_to_csv (half of those through its command entry point on real files with --config-file); fuzz (model comparison '
        'only): truncated files, undecodable bytes (ascii, cp1252), duplicate sub ids, index rows after the trailer, layouts with '
        'start < 19, end < start or colliding column names; non-trivial = at least one row returned or the file is refused')
EXHAUSTIVE = {}
ASSUMPTIONS = ['layouts with a position below 8 read in compressed mode (negative Python index) are outside the property: UNMODELLED',
               'the csv module is an external library: tool output is compared after parsing it back with csv.reader',
               'param_config is always passed to mci_ipm_param_to_csv (as the command line entry point does)']

HEADER = ['table_id', 'effective_timestamp', 'active_inactive_code']
KEY = 'IP0000T1'
TRAILER = 'TRAILER RECORD IP0000T1'
PRINT = 'ABCDEFGHIJKLMNOPQRSTUVWXYZ0123456789 abcxyz.-/'
CSVSAFE = ''.join(chr(c) for c in list(range(0x20, 0x7f)) + list(range(0xa0, 0x100)))
ANY = ''.join(chr(c) for c in range(256))


# ------------------------------------------------------------------ configuration
def packaged_cfg():
    """the library's packaged layouts as {table: [[field, start, end], ...]} (ordered)"""
    from cardutil import config
    return {t: [[f, p['start'], p['end']] for f, p in fs.items()] for t, fs in config.config['mci_parameter_tables'].items()}


FALLBACK_TABLES = {'IP0040T1': 169, 'IP0006T1': 97, 'IP0075T1': 31, 'IP0095T1': 36}


def cfg_of(case):
    return case['cfg'] if case.get('cfg') is not None else packaged_cfg()


def lib_cfg(cfg):
    return {t: {f: {'start': s, 'end': e} for f, s, e in fs} for t, fs in cfg.items()}


def cfg_text(cfg):
    if not cfg:
        return '-'
    return ';'.join('%s:%s' % (hs(t), ','.join('%s.%d.%d' % (hs(f), s, e) for f, s, e in fs) or '-') for t, fs in cfg.items())


# ------------------------------------------------------------------ generators
def rstr(r, n, alpha):
    return ''.join(r.choice(alpha) for _ in range(n))


def gen_layout(r, style):
    """a generated table layout: [[field, start, end], ...]"""
    n = r.choice([1, 2, 3, 5, 9])
    fs, pos = [], 19
    for i in range(n):
        name = 'f%d_%s' % (i, rstr(r, r.randrange(0, 6), 'abcdefgh_'))
        if style == 'ok':
            s = pos + r.choice([0, 0, 0, 1, 3])
            e = s + r.choice([0, 1, 1, 2, 3, 8, 30])
            if r.random() < 0.15:
                s = r.randrange(19, 60)
                e = s + r.randrange(0, 12)
            pos = max(pos, e)
        else:  # fuzz: anything
            s = r.choice([0, 3, 7, 8, 9, 11, 18, 19, r.randrange(0, 60)])
            e = r.choice([s, s + 1, s + 5, max(0, s - 2), r.randrange(0, 70)])
            if r.random() < 0.2:
                name = r.choice(HEADER + [fs[0][0]] if fs else HEADER)
        fs.append([name, s, e])
    if style != 'ok':   # a dict cannot hold a key twice: keep the last position, as dict construction would
        d = {}
        for f, s, e in fs:
            d[f] = (s, e)
        fs = [[f, s, e] for f, (s, e) in d.items()]
    return fs


def gen(rng, tier):
    cases = []
    try:
        tables = list(packaged_cfg().keys())
    except Exception:
        tables = list(FALLBACK_TABLES)
    n = 1 if tier == 'quick' else 30

    def base(**kw):
        c = {'kind': 'rows', 'seed': rng.randrange(1 << 30), 'enc': rng.choice(['latin_1', 'cp500', 'cp500', 'latin_1', None, 'cp037']),
             'expanded': rng.random() < 0.5, 'blocked': rng.random() < 0.5, 'cfg': None, 'table': rng.choice(tables),
             'nidx': rng.choice([1, 2, 3, 4, 6]), 'nrows': rng.choice([0, 1, 2, 3, 5, 8, 13, 30]), 'alpha': rng.choice(['print', 'print', 'csv', 'any']),
             'csv': False}
        c.update(kw)
        return c
    # every packaged table x representation x codec x blocking
    for t in tables:
        for expanded in (False, True):
            for enc in ('latin_1', 'cp500'):
                for blocked in (False, True):
                    for _ in range(3 * n):
                        cases.append(base(table=t, expanded=expanded, enc=enc, blocked=blocked))
    # generated layouts passed via param_config
    for _ in range(120 * n):
        cases.append(base(cfg='gen'))
    # both representations of the same logical rows
    for _ in range(50 * n):
        cases.append(base(kind='both', cfg=rng.choice([None, 'gen'])))
    # large indexes: 255 / 256, and all thousand numeric sub ids but a few / all of them
    for big in (255, 256, 998, 999, 1000):
        cases.append(base(nidx=big, bigidx=big, expanded=big % 2 == 0, nrows=8))
    # refusals
    for _ in range(40 * n):
        cases.append(base(kind='notrailer', cfg=rng.choice([None, 'gen'])))
    for _ in range(40 * n):
        cases.append(base(kind='noconfig', cfg=rng.choice([None, 'gen', 'gen-empty'])))
    # fuzz: compared with the model only
    for _ in range(160 * n):
        mut = rng.choice(['cut', 'cut', 'byte', 'byte', 'byte', 'dupsub', 'lateidx', 'shortrec', 'trailerlike', 'none', 'none'])
        cases.append(base(kind='fuzz', cfg=rng.choice([None, 'gen', 'gen-fuzz', 'gen-fuzz']), mut=mut,
                          enc=rng.choice(['ascii', 'cp1252', 'ascii'] if mut == 'byte' else ['latin_1', 'cp500', 'ascii', 'cp1252']),
                          nrows=rng.choice([1, 2, 3, 5, 8, 13, 30])))
    for i, c in enumerate(cases):
        if i % 4 == 0 and c['alpha'] != 'any':
            c['csv'] = True
    return cases


# ------------------------------------------------------------------ materialising a case (pure function of the case)
def materialise(case):
    """-> dict(cfg, table, irows, tail, trailer, rows{mode}, recs_mut...) built from the case's seed"""
    r = random.Random(case['seed'])
    alpha = {'print': PRINT, 'csv': CSVSAFE, 'any': ANY}[case['alpha']]
    if case.get('enc') in ('ascii', 'cp1252'):
        alpha = PRINT
    # configuration
    if case['cfg'] is None:
        cfg = packaged_cfg()
        table = case['table']
    else:
        style = 'fuzz' if case['cfg'] == 'gen-fuzz' else 'ok'
        names = ['IP%04dT1' % x for x in r.sample(range(1, 9999), 3)]
        if r.random() < 0.35:
            # the caller's configuration REDEFINES a table the package also knows, with columns of its own
            try:
                names[r.randrange(3)] = r.choice(sorted(packaged_cfg().keys()))
            except Exception:
                pass
        cfg = {t: gen_layout(r, style) for t in names}
        if case['cfg'] == 'gen-empty':
            cfg[names[1]] = []
        table = names[1] if case['cfg'] == 'gen-empty' else r.choice(names)
    if case['kind'] == 'noconfig' and case['cfg'] != 'gen-empty':
        table = r.choice(['IP9999T1', 'IP0000T1', '', 'ip0040t1', table + 'X'])
    # index: sub ids duplicate-free, table ids = configured tables + others
    # (`bigidx`: an index of many hundred entries - every sub id from 000 to 999 in use)
    others = ['IP%04dT1' % x for x in r.sample(range(1, 9999), max(6, case.get('bigidx', 0)))]
    pool = list(dict.fromkeys(([table] if len(table) == 8 else []) + [t for t in cfg if len(t) == 8] + others))
    r.shuffle(pool)
    if len(table) == 8 and r.random() < 0.85 and table not in pool[:case['nidx']]:
        pool.remove(table)
        pool.insert(r.randrange(0, case['nidx']), table)
    idx_tables = pool[:case['nidx']]
    subs = r.sample(['%03d' % x for x in range(1000)] + ['A01', 'xyz', ' 12'], len(idx_tables))
    irows = [[rstr(r, 10, '0123456789') + r.choice('AI'), t, r.choice([216 * '.', rstr(r, 216, alpha)]), s,
              r.choice(['', '', rstr(r, r.randrange(1, 20), alpha)])] for t, s in zip(idx_tables, subs)]
    index = dict(zip(subs, idx_tables))
    sub_of = {t: s for s, t in index.items()}
    tail = r.choice(['', '  00000218' + 47 * ' ', rstr(r, r.randrange(0, 30), alpha)])
    # data rows (logical): table, code, body, both timestamps
    width = max([e for fs in cfg.values() for _, _, e in fs] + [19]) - 19
    rows = []
    for _ in range(case['nrows']):
        if case['kind'] == 'both':      # the same logical row must exist in both representations: indexed tables only
            t = r.choice(idx_tables)
        else:
            t = r.choice(idx_tables + idx_tables + [table if len(table) == 8 else 'IP0001T1'] * 2 + ['IP0001T1', 'XXXXXXXX'])
        blen = r.choice([width, width, width + r.randrange(0, 40), r.randrange(0, width + 1), 0, 1])
        rows.append({'table': t, 'code': r.choice(['A', 'I', r.choice(alpha)]), 'body': rstr(r, blen, alpha),
                     'ts10': rstr(r, 10, '0123456789'), 'ts7': rstr(r, 7, '0123456789'),
                     'sub': sub_of.get(t, r.choice(['q?q', 'zzz', '~~~']))})
    return {'cfg': cfg, 'table': table, 'irows': irows, 'tail': tail, 'index': index, 'rows': rows, 'r': r}


def drows(m, expanded):
    """the data rows in one representation: [ts, code, key, body]"""
    return [[x['ts10'], x['code'], x['table'], x['body']] if expanded else [x['ts7'], x['code'], x['sub'], x['body']] for x in m['rows']]


def texts_of(case, m, expanded):
    out = [p + KEY + t + mid + s + post for p, t, mid, s, post in m['irows']]
    if case['kind'] != 'notrailer':
        out.append(TRAILER + m['tail'])
    out += [''.join(x) for x in drows(m, expanded)]
    if case['kind'] == 'notrailer':
        # records that LOOK like a trailer but are not the index trailer: the trailers of the individual tables, the
        # marker alone, another case, a different table number (a real extract has one trailer per table)
        r = random.Random(case['seed'] ^ 0x7177)
        decoys = ['TRAILER RECORD IP0040T1  0000012', 'TRAILER RECORD IP0006T1', 'TRAILER RECORD', 'TRAILER RECORD IP0000T2 00001',
                  'trailer record ip0000t1', ' TRAILER RECORD IP0000T1', 'TRAILER  RECORD IP0000T1', 'TRAILER RECORD IP0000T']
        for _ in range(r.choice([0, 1, 1, 2, 3])):
            out.insert(r.randrange(len(m['irows']), len(out) + 1), r.choice(decoys))
    return out


def encoding_of(case):
    return case['enc'] or 'latin_1'


def records_of(case, m, expanded):
    """record bytes, after the case's mutation (fuzz only)"""
    enc = encoding_of(case)
    recs = [t.encode(enc) for t in texts_of(case, m, expanded)]
    mut = case.get('mut', 'none') if case['kind'] == 'fuzz' else 'none'
    r = random.Random(case['seed'] ^ 0x5a5a)
    nidx = len(m['irows'])
    if mut == 'byte' and recs:     # a byte the codec may not decode (ascii: >= 0x80; cp1252: 0x81 0x8d 0x8f 0x90 0x9d), anywhere
        i = r.choice([r.randrange(len(recs)), len(recs) - 1 - r.randrange(min(len(recs), 3))])
        p = r.choice([r.randrange(len(recs[i])), r.randrange(min(len(recs[i]), 30))])
        recs[i] = recs[i][:p] + bytes([r.choice([0x80, 0x81, 0x8d, 0x90, 0xff, 0x00, r.randrange(256)])]) + recs[i][p + 1:]
    elif mut == 'dupsub' and nidx >= 1:   # a second assignment for an existing sub id: the later one wins
        p, t, mid, s, post = m['irows'][r.randrange(nidx)]
        other = r.choice([x[1] for x in m['irows']] + ['IP7777T1'])
        recs.insert(r.randrange(0, nidx + 1), (p + KEY + other + mid + s + post).encode(enc))
    elif mut == 'lateidx' and nidx >= 1:  # an index row behind the trailer is an ordinary data record
        recs.append(recs[r.randrange(nidx)])
    elif mut == 'shortrec':
        recs.insert(r.randrange(len(recs) + 1), r.choice([b'x', b'........xxx....', b'2024012414A', b'TRAILER', TRAILER.encode(enc)[:22]]))
    elif mut == 'trailerlike':            # a data record that starts with the trailer text / a second trailer
        recs.insert(r.randrange(len(recs) + 1), (TRAILER + ' again').encode(enc))
    return recs


def file_of(case, recs):
    f = vbs_ref(recs)
    if case['blocked']:
        f = block_ref(f)
    if case['kind'] == 'fuzz' and case.get('mut') == 'cut':
        r = random.Random(case['seed'] ^ 0xc0c0)
        f = f[:r.randrange(0, len(f) + 1)]
    return f


# ------------------------------------------------------------------ the property, stated independently
def in_domain(case, m, expanded):
    """hypotheses of the theorem: admissible layout for the requested table, well-formed rows, duplicate-free sub ids"""
    if case['kind'] == 'fuzz':
        return False
    fs = m['cfg'].get(m['table'])
    if not fs:
        return True     # refusal expected: no further hypothesis
    names = [f for f, _, _ in fs]
    return (all(19 <= s <= e for _, s, e in fs) and len(set(names + HEADER)) == len(names) + 3
            and len(m['index']) == len(m['irows']))


def expected(case, m, expanded):
    """what the property demands: 'RAISE DATAERR' or the rows, by slicing the generated rows"""
    fs = m['cfg'].get(m['table'])
    if not fs or case['kind'] == 'notrailer':
        return 'RAISE DATAERR', None
    out = []
    for ts, code, key, body in drows(m, expanded):
        t = key if expanded else m['index'].get(key)
        if t == m['table']:
            out.append([('table_id', t), ('effective_timestamp', ts), ('active_inactive_code', code)]
                       + [(f, body[s - 19:e - 19]) for f, s, e in fs])
    return 'OK ' + rows_text(out) + '|END', out


def row_text(kvs):
    return ';'.join(hs(k) + '=' + hs(v) for k, v in kvs)


def rows_text(rows):
    return '/'.join(row_text(r) for r in rows) if rows else '-'


def cells_text(names, rows):
    return ';'.join(hs(x) for x in names) + '|' + ('/'.join(';'.join(hs(x) for x in r) for r in rows) if rows else '-')


# ------------------------------------------------------------------ implementation
def read_impl(case, m, f, expanded):
    from cardutil import mciipm
    kw = {}
    if case['cfg'] is not None:
        kw['param_config'] = lib_cfg(m['cfg'])
    try:
        reader = mciipm.IpmParamReader(io.BytesIO(f), m['table'], encoding=case['enc'], expanded=expanded, blocked=case['blocked'], **kw)
    except Exception as ex:
        return 'RAISE ' + exc_class(ex)
    rows, end = [], 'END'
    try:
        for d in reader:
            rows.append(list(d.items()))
    except Exception as ex:
        end = 'RAISE ' + exc_class(ex)
    return 'OK ' + rows_text(rows) + '|' + end


def csv_cli(case, m, f, expanded):
    """the same through the command entry point on real files, the layouts handed over as --config-file"""
    import contextlib
    import json
    import os
    from cardutil.cli import mci_ipm_param_to_csv as tool
    base = os.path.join(os.getcwd(), 'c18_%d' % os.getpid())
    try:
        with open(base + '.ipm', 'wb') as g:
            g.write(f)
        with open(base + '.json', 'w') as g:
            json.dump({'mci_parameter_tables': lib_cfg(m['cfg'])}, g)
        args = [base + '.ipm', m['table'], '-o', base + '.csv', '--config-file', base + '.json', '--out-encoding', 'utf8']
        if case['enc']:
            args += ['--in-encoding', case['enc']]
        if not case['blocked']:
            args.append('--no1014blocking')
        if expanded:
            args.append('--expanded')
        try:
            with contextlib.redirect_stdout(io.StringIO()):
                tool.cli_run(**vars(tool.cli_parser().parse_args(args)))
        except Exception as ex:
            return 'RAISE ' + exc_class(ex)
        with open(base + '.csv', 'r', encoding='utf8', newline='') as g:
            got = list(csv.reader(g))
        return 'OK ' + cells_text(got[0] if got else [], got[1:]) + '|END'
    finally:
        for ext in ('.ipm', '.json', '.csv'):
            if os.path.exists(base + ext):
                os.unlink(base + ext)


def csv_impl(case, m, f, expanded):
    from cardutil.cli import mci_ipm_param_to_csv as tool
    if case['seed'] % 2 and m['table'].isalnum():
        return csv_cli(case, m, f, expanded)
    out = io.StringIO(newline='')
    try:
        tool.mci_ipm_param_to_csv(in_param=io.BytesIO(f), out_csv=out, table_id=m['table'], config=lib_cfg(m['cfg']),
                                  in_encoding=case['enc'], no1014blocking=not case['blocked'], expanded=expanded)
    except Exception as ex:
        return 'RAISE ' + exc_class(ex)
    got = list(csv.reader(io.StringIO(out.getvalue(), newline='')))
    return 'OK ' + cells_text(got[0] if got else [], got[1:]) + '|END'


def modes(case):
    return (True, False) if case['kind'] == 'both' else (case['expanded'],)


def impl(case):
    m = materialise(case)
    res = {}
    for ex in modes(case):
        f = file_of(case, records_of(case, m, ex))
        k = 'x' if ex else 'c'
        res['read_' + k] = read_impl(case, m, f, ex)
        if case['csv']:
            res['csv_' + k] = csv_impl(case, m, f, ex)
    return res


# ------------------------------------------------------------------ model
def model_lines(case, io_):
    m = materialise(case)
    enc, tb = hs(encoding_of(case)), hs(m['table'])
    lines = []
    for ex in modes(case):
        recs = records_of(case, m, ex)
        fhex = file_of(case, recs).hex() or '-'
        e, b = '1' if ex else '0', '1' if case['blocked'] else '0'
        if case['cfg'] is None:
            lines.append('param_read %s %s %s %s %s' % (enc, tb, e, b, fhex))
        else:
            lines.append('param_read_cfg %s %s %s %s %s %s' % (enc, tb, e, b, cfg_text(m['cfg']), fhex))
        if case['csv']:
            lines.append('param_csv %s %s %s %s %s %s' % (enc, tb, e, b, cfg_text(m['cfg']), fhex))
        if case['kind'] not in ('fuzz', 'notrailer'):
            lines.append('param_spec %s %s %s %s %s %s %s' % (
                enc, tb, e, cfg_text(m['cfg']),
                ','.join('.'.join(hs(x) for x in ir) for ir in m['irows']) or '-', hs(m['tail']),
                ','.join('.'.join(hs(x) for x in dr) for dr in drows(m, ex)) or '-'))
    return lines


def csv_class(model_csv):
    """the tool lets an exception out of the iteration escape: only its class is observable"""
    if model_csv.startswith('OK ') and not model_csv.endswith('|END'):
        return model_csv[model_csv.rindex('|') + 1:]
    return model_csv


def judge(case, io_, mo):
    ps = []
    if any(str(v) in ('HANG', 'CRASH', 'NOTRUN', 'HARNESS') for v in io_.values()):
        return [{'kind': 'oracle', 'sig': 'impl-' + str(io_.get('out')).lower(), 'msg': 'implementation run ended with %s' % io_}]
    m = materialise(case)
    mo = list(mo) if mo is not None else None
    outs = {}
    for ex in modes(case):
        k = 'x' if ex else 'c'
        got = io_['read_' + k]
        outs[ex] = got
        mode = 'expanded' if ex else 'compressed'
        dom = in_domain(case, m, ex)
        want, want_rows = expected(case, m, ex)
        ok = True
        if dom and canon(got) != canon(want):
            ok = False
            if want.startswith('RAISE'):
                ps.append({'kind': 'oracle', 'sig': 'not-refused', 'msg': '%s file %s must be refused with the library error; got %s' % (
                    mode, 'without index trailer' if case['kind'] == 'notrailer' else 'read for a table without configuration', got[:80])})
            elif got.startswith('RAISE') or not got.endswith('|END'):
                ps.append({'kind': 'oracle', 'sig': 'unexpected-error', 'msg': '%s: well-formed extract not read completely: %s' % (mode, got[-60:])})
            else:
                ps.append({'kind': 'oracle', 'sig': 'rows-differ', 'msg': '%s: rows returned for %s differ from the independent slicing of the generated rows (%d expected)' % (
                    mode, m['table'], len(want_rows))})
        if dom and case['csv']:
            gc = io_['csv_' + k]
            wc = want if want.startswith('RAISE') else 'OK ' + cells_text(HEADER + [f for f, _, _ in m['cfg'][m['table']]], [[v for _, v in r] for r in want_rows]) + '|END'
            if gc != wc:
                ok = False
                ps.append({'kind': 'oracle', 'sig': 'csv-differs', 'msg': '%s: mci_ipm_param_to_csv output differs from the expected columns/rows: %s' % (mode, gc[:80])})
        if mo is None:
            continue
        # model answers, in the order of model_lines
        mread = mo.pop(0) if mo else 'MISSING'
        mcsv = (mo.pop(0) if mo else 'MISSING') if case['csv'] else None
        mspec = (mo.pop(0) if mo else 'MISSING') if case['kind'] not in ('fuzz', 'notrailer') else None
        if not ok:
            continue
        if mread not in ('BADOP',) and not mread.startswith('UNMODELLED') and canon(mread) != canon(got):
            ps.append({'kind': 'corr', 'sig': 'param_read', 'msg': '%s: IpmParamReader differs from model param_read: impl %s / model %s' % (mode, got[-60:], mread[-60:])})
        if mcsv is not None and mcsv != 'BADOP' and not mcsv.startswith('UNMODELLED') and csv_class(mcsv) != io_['csv_' + k]:
            ps.append({'kind': 'corr', 'sig': 'param_csv', 'msg': '%s: mci_ipm_param_to_csv differs from model param_to_csv: impl %s / model %s' % (mode, io_['csv_' + k][-60:], mcsv[-60:])})
        if mspec is not None and mspec != 'BADOP' and dom:
            recs = records_of(case, m, ex)
            wrecs = 'OK ' + (','.join(he(x) for x in recs) or '-') + '|'
            wspec = wrecs + (rows_text(want_rows) if want_rows is not None else '-')
            if (mspec != wspec) if m['cfg'].get(m['table']) else (not mspec.startswith(wrecs)):
                ps.append({'kind': 'corr', 'sig': 'param_spec', 'msg': '%s: Coq spec (file builder / expected rows) differs from the harness builder / slicing' % mode})
    if case['kind'] == 'both' and not ps and in_domain(case, m, True):
        a, b = parse_rows(outs[True]), parse_rows(outs[False])
        strip = lambda rows: [sorted(kv for kv in r if not kv.startswith(hs('effective_timestamp') + '=')) for r in rows]
        if a is None or b is None or strip(a) != strip(b):
            ps.append({'kind': 'oracle', 'sig': 'compressed-differs-from-expanded', 'msg': 'the two representations of the same rows give different column values'})
    return ps


def canon(out):
    """rows are dictionaries: the order of the entries inside a row is not observable (Python dict equality)"""
    if not isinstance(out, str) or not out.startswith('OK ') or '|' not in out:
        return out
    body, _, end = out[3:].rpartition('|')
    if body == '-':
        return out
    return 'OK ' + '/'.join(';'.join(sorted(r.split(';'))) for r in body.split('/')) + '|' + end


def parse_rows(out):
    if not out.startswith('OK ') or not out.endswith('|END'):
        return None
    body = out[3:-4]
    return [] if body == '-' else [r.split(';') for r in body.split('/')]


def nontrivial(case, io_):
    return any(isinstance(v, str) and (v.startswith('RAISE') or (v.startswith('OK ') and not v.startswith('OK -|'))) for v in io_.values())


def label(case):
    return '%s/%s/%s/%s/%s%s' % (case['kind'], 'both' if case['kind'] == 'both' else 'expanded' if case['expanded'] else 'compressed',
                                 case['enc'] or 'default', 'blocked' if case['blocked'] else 'unblocked',
                                 'packaged' if case['cfg'] is None else case['cfg'], '/csv' if case['csv'] else '')
