"""C19 — encoding/format conversion tools preserve every record and are reversible."""
import contextlib
import io
import os
from util import hb, outcome
import isoutil as iu
from props.framing import block_ref, vbs_ref, read_all_impl, hlist

ID = 'C19'
RULE = ('writer-produced IPM files (PDS, ICC, typed fields, element subsets) and arbitrary-byte parameter files x ordered pairs of '
        '{latin_1, cp500, cp037} x {vbs,1014}^2, through the tool functions mci_ipm_encode and mci_ipm_param_encode on BytesIO and '
        'through the command entry points (mci_ipm_encode, mideu convert - also with a value-changing user configuration in $CARDUTIL_CONFIG -, mci_ipm_param_encode, paramconv with and without -o) on '
        'real temporary files; one case in four has A = B (format-only conversion); A->B then B->A must reproduce the original bytes; non-trivial = distinct case with at least 2 records')
EXHAUSTIVE = {}
ASSUMPTIONS = ['argparse wiring, file opening and printing are exercised by the run only (no theorem about them)']
ENC = ['latin_1', 'cp500', 'cp037']


def pair(rng):
    # A = B (a format-only conversion) is a legitimate use of the tools: one case in four
    if rng.random() < 0.25:
        a = rng.choice(ENC)
        return a, a
    return rng.sample(ENC, 2)


def gen(rng, tier):
    cases = []
    pk = iu.packaged()
    n = 180 if tier == 'quick' else 6000
    for i in range(n):
        a, b = pair(rng)
        fa, fb = rng.random() < 0.5, rng.random() < 0.5
        msgs = [iu.dict_text(iu.rand_message_fit(rng, pk, a, nbits=rng.choice([1, 3, 8, 20]))) for _ in range(rng.choice([1, 2, 5, 12]))]
        via = ['func', 'cli', 'mideu', 'func', 'cli', 'mideu-env'][i % 6]
        if via.startswith('mideu'):
            a, b = rng.choice([('cp500', 'latin_1'), ('latin_1', 'cp500')])
            fb = fa
            msgs = [iu.dict_text(iu.rand_message_fit(rng, pk, a, nbits=rng.choice([1, 3, 8, 20]))) for _ in range(rng.choice([1, 2, 5]))]
        cases.append({'kind': 'ipm', 'via': via, 'a': a, 'b': b, 'fa': fa, 'fb': fb, 'msgs': msgs})
    # records that end on, just before and just after a 1012-byte payload boundary of the OUTPUT (a first record of
    # 2021 or 2022 bytes leaves one or two bytes for the next block), alone and after a short first record
    from props.framing import B
    ends = [k * B + d for k in (1, 2, 3) for d in range(-5, 7)]
    for e in (ends if tier == 'quick' else ends * 4):
        a, b = pair(rng)
        first = rng.choice([0, 0, 40, 300])
        size = e - 4 - (first + 4 if first else 0)
        if not 24 <= size <= 4028:
            continue
        msgs = ([iu.dict_text(iu.sized_message(rng, first))] if first else []) + [iu.dict_text(iu.sized_message(rng, size))]
        cases.append({'kind': 'ipm', 'via': rng.choice(['func', 'cli']), 'a': a, 'b': b, 'fa': rng.random() < 0.5, 'fb': True, 'msgs': msgs})
    for i in range(n):
        a, b = pair(rng)
        fa, fb = rng.random() < 0.5, rng.random() < 0.5
        if i % 3 == 2:
            # fixed-width records padded with EBCDIC blanks (0x40), as real parameter extracts are: long runs of the very
            # byte the 1014 trailer consists of, in files of more than two blocks' worth of data
            def padded():
                n = rng.choice([80, 250, 1012, 1014, 1100])
                body = bytes(rng.choice(b'ABCDEFGHIJ0123456789') for _ in range(rng.randrange(0, min(n, 40))))
                return (body + b'\x40' * n)[:n]
            recs = [padded().hex() for _ in range(rng.choice([2, 3, 6, 12, 30]))]
        else:
            recs = [bytes(rng.randrange(256) for _ in range(rng.choice([1, 5, 80, 250, 1100]))).hex() for _ in range(rng.choice([1, 2, 6]))]
        via = ['func', 'cli', 'paramconv', 'paramconv-o'][i % 4]
        if via.startswith('paramconv'):
            a, b = rng.choice([('cp500', 'latin_1'), ('latin_1', 'cp500')])
            fb = fa
        cases.append({'kind': 'param', 'via': via, 'a': a, 'b': b, 'fa': fa, 'fb': fb, 'recs': recs})
    return cases


def run_tool(case, data, a, b, fa, fb):
    """convert bytes `data` from (a, fa) to (b, fb) through the tool named by case['via']"""
    from cardutil.cli import mci_ipm_encode, mci_ipm_param_encode, mideu, paramconv
    fmt = lambda x: '1014' if x else 'vbs'
    via = case['via']
    if via == 'func':
        out = io.BytesIO()
        # the documented parameter order (in_file, out_file, in_encoding, out_encoding, in_format, out_format): by keyword
        # and, for every other case, by position
        positional = len(data) % 2 == 1
        fn = mci_ipm_encode.mci_ipm_encode if case['kind'] == 'ipm' else mci_ipm_param_encode.mci_ipm_param_encode
        if positional:
            fn(io.BytesIO(data), out, a, b, fmt(fa), fmt(fb))
        elif case['kind'] == 'ipm':
            fn(io.BytesIO(data), out_file=out, in_encoding=a, out_encoding=b, in_format=fmt(fa), out_format=fmt(fb))
        else:
            fn(io.BytesIO(data), out, in_encoding=a, out_encoding=b, in_format=fmt(fa), out_format=fmt(fb))
        return out.getvalue()
    path = os.path.join(os.getcwd(), 'conv_%d.bin' % os.getpid())
    outp = path + '.res'
    with open(path, 'wb') as f:
        f.write(data)
    try:
        with contextlib.redirect_stdout(io.StringIO()):
            if via == 'cli':
                mod = mci_ipm_encode if case['kind'] == 'ipm' else mci_ipm_param_encode
                args = [path, '-o', outp, '--in-encoding', a, '--out-encoding', b, '--in-format', fmt(fa), '--out-format', fmt(fb)]
                mod.cli_run(**vars(mod.cli_parser().parse_args(args)))
            elif via in ('mideu', 'mideu-env'):
                outp = path + '.out'
                envdir = None
                if via == 'mideu-env':
                    # a user configuration is in force ($CARDUTIL_CONFIG/cardutil.json) that would change values if the
                    # conversion decoded with it: PAN masking on DE2, DE55 as plain text, another DE43 pattern
                    import json
                    from cardutil.config import config as pkg
                    c = json.loads(json.dumps(pkg))
                    c['bit_config']['2']['field_processor'] = 'PAN'
                    c['bit_config']['55'].pop('field_processor', None)
                    c['bit_config']['43']['field_processor_config'] = '(?P<DE43_ALL>.*)'
                    envdir = path + '_cfg'
                    os.makedirs(envdir, exist_ok=True)
                    with open(os.path.join(envdir, 'cardutil.json'), 'w') as f:
                        json.dump(c, f)
                    os.environ['CARDUTIL_CONFIG'] = envdir
                try:
                    mideu.cli_entry(['convert', path, '-s', 'ebcdic' if a == 'cp500' else 'ascii'] + ([] if fa else ['--no1014blocking']))
                finally:
                    if envdir:
                        os.environ.pop('CARDUTIL_CONFIG', None)
                        import shutil
                        shutil.rmtree(envdir, ignore_errors=True)
            else:
                args = [path, '-s', 'ebcdic' if a == 'cp500' else 'ascii'] + ([] if fa else ['--no1014blocking'])
                if via == 'paramconv-o':
                    args += ['-o', outp]
                else:
                    outp = path + '.out'
                paramconv.cli_entry(args)
        with open(outp, 'rb') as f:
            return f.read()
    finally:
        for p in (path, path + '.res', path + '.out'):
            if os.path.exists(p):
                os.unlink(p)


def original(case):
    from cardutil import mciipm
    if case['kind'] == 'ipm':
        # the input file is what the library's writer produces, PROVIDED that is the layout the independent reference
        # encoder gives (up to the optional trailing all-fill block); if the library's own writer has gone wrong it would
        # hand the tools an input that is already damaged, so the reference layout is used instead (`by` = 'ref': the
        # byte-for-byte clause, which speaks of files written by the library, is then taken up to trailing fill)
        ref = None
        try:
            pk = iu.packaged()
            data = vbs_ref([iu.ref_wire(iu.dict_of_text(t), pk, case['a'], False) for t in case['msgs']])
            ref = block_ref(data) if case['fa'] else data
        except Exception:
            pass
        try:
            f = io.BytesIO()
            with mciipm.IpmWriter(f, encoding=case['a'], blocked=case['fa']) as w:
                for t in case['msgs']:
                    w.write(iu.dict_of_text(t))
            lib = f.getvalue()
        except Exception:
            lib = None
        if ref is not None and (lib is None or (strip_fill(lib) != strip_fill(ref) if case['fa'] else lib != ref)):
            case['_by'] = 'ref'
            return ref
        f = io.BytesIO()
        with mciipm.IpmWriter(f, encoding=case['a'], blocked=case['fa']) as w:
            for t in case['msgs']:
                w.write(iu.dict_of_text(t))
        return f.getvalue()
    data = vbs_ref([bytes.fromhex(r) for r in case['recs']])
    ref = block_ref(data) if case['fa'] else data
    try:
        lib = mciipm.vbs_list_to_bytes([bytes.fromhex(r) for r in case['recs']], blocked=case['fa'])
    except Exception:
        lib = None
    if lib is None or (strip_fill(lib) != strip_fill(ref) if case['fa'] else lib != ref):
        case['_by'] = 'ref'
        return ref
    return lib


def decoded(data, codec, blocked, kind):
    from cardutil import mciipm
    if kind == 'ipm':
        return [iu.dict_text(d) for d in mciipm.IpmReader(io.BytesIO(data), encoding=codec, blocked=blocked)]
    return [r.decode(codec) for r in mciipm.VbsReader(io.BytesIO(data), blocked=blocked)]


def impl(case):
    orig = original(case)
    res = {'orig': orig.hex(), 'by': case.pop('_by', 'lib')}
    fwd = outcome(lambda: run_tool(case, orig, case['a'], case['b'], case['fa'], case['fb']), hb)
    res['fwd'] = fwd
    if fwd.startswith('OK '):
        conv = bytes.fromhex(fwd[3:]) if fwd[3:] != '-' else b''
        res['same_records'] = outcome(lambda: decoded(conv, case['b'], case['fb'], case['kind']) == decoded(orig, case['a'], case['fa'], case['kind']), str)
        res['nrec'] = outcome(lambda: len(decoded(conv, case['b'], case['fb'], case['kind'])), str)
        res['back'] = outcome(lambda: run_tool(case, conv, case['b'], case['a'], case['fb'], case['fa']), hb)
    return res


def model_lines(case, io_):
    b = lambda x: '1' if x else '0'
    if case['kind'] == 'ipm':
        return ['ipm_convert %s %s %s %s %s %s' % ('1' if case['via'].startswith('mideu') else '0', iu.hs(case['a']), iu.hs(case['b']), b(case['fa']), b(case['fb']), io_['orig'] or '-')]
    return ['pconvert %s %s %s %s %s' % (iu.hs(case['a']), iu.hs(case['b']), b(case['fa']), b(case['fb']), io_['orig'] or '-')]


def strip_fill(f):
    n = len(f)
    while n and f[n - 1] == 0x40:
        n -= 1
    return f[:n]


def judge(case, io_, mo):
    ps = []
    tool = case['kind'] + '-' + case['via']
    if not io_['fwd'].startswith('OK '):
        return [{'kind': 'oracle', 'sig': 'conversion-failed-' + tool, 'msg': 'conversion %s -> %s failed: %s' % (case['a'], case['b'], io_['fwd'])}]
    if io_.get('same_records') != 'OK True':
        ps.append({'kind': 'oracle', 'sig': 'records-changed-' + tool, 'msg': 'records decoded under %s differ from the input decoded under %s (%s)' % (case['b'], case['a'], io_.get('same_records'))})
    want_n = len(case['msgs'] if case['kind'] == 'ipm' else case['recs'])
    if io_.get('nrec') != 'OK %d' % want_n:
        ps.append({'kind': 'oracle', 'sig': 'record-count-' + tool, 'msg': '%s records after conversion, %d before' % (io_.get('nrec'), want_n)})
    back_same = io_.get('back') == 'OK ' + (io_['orig'] or '-')
    if not back_same and io_.get('by') == 'ref' and case['fa'] and str(io_.get('back', '')).startswith('OK '):
        bk = io_['back'][3:]
        back_same = strip_fill(bytes.fromhex(bk) if bk != '-' else b'') == strip_fill(bytes.fromhex(io_['orig']))
    if not back_same:
        ps.append({'kind': 'oracle', 'sig': 'not-reversible-' + tool, 'msg': 'converting back does not reproduce the original file byte for byte'})
    if mo is not None and not ps and not mo[0].startswith('UNMODELLED'):
        f = bytes.fromhex(io_['fwd'][3:]) if io_['fwd'][3:] != '-' else b''
        mf = bytes.fromhex(mo[0][3:]) if mo[0].startswith('OK ') and mo[0][3:] != '-' else None
        if mf is None or ((strip_fill(f) != strip_fill(mf)) if case['fb'] else (f != mf)):
            ps.append({'kind': 'corr', 'sig': 'convert-' + case['kind'], 'msg': 'converted file differs from model: %s' % mo[0][:60]})
    return ps


def nontrivial(case, io_):
    return len(case['msgs'] if case['kind'] == 'ipm' else case['recs']) >= 2


def label(case):
    f = lambda x: '1014' if x else 'vbs'
    return '%s/%s/%s->%s/%s->%s' % (case['kind'], case['via'], case['a'], case['b'], f(case['fa']), f(case['fb']))
