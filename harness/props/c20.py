"""C20 — CSV to IPM to CSV returns the same rows."""
import contextlib
import csv
import io
import os
from util import hb, hs, outcome
import isoutil as iu

ID = 'C20'
RULE = ('CSV tables of 1..50 rows over the non-derived configured output columns (MTI, data elements, PDS sub-elements; every fifth table has the '
        'PDS carrier columns together with PDS columns, each row using one kind), cells with commas, quotes, leading/trailing spaces and boundary lengths, plain '
        'decimal numbers, ISO date-times across the two-digit-year window, empty cells = absent; latin_1/cp500 x blocking; through '
        'mci_csv_to_ipm / mci_ipm_to_csv as functions and through their command entry points on real files (packaged configuration, and the same configuration handed over as --config-file, as cardutil.json in $CARDUTIL_CONFIG, and without the output column list; extraction also through `mideu extract`); '
        'every table also at TEXT level (the csv text given and the csv text written, against model/Csv.v); a line feed inside a cell now and then; '
        'plus the csv layer alone: arbitrary and malformed texts through csv.reader (StringIO and universal-newline delivery), arbitrary rows through csv.writer; '
        'non-trivial = distinct table with at least 2 rows / csv text of at least 2 characters')
EXHAUSTIVE = {}
ASSUMPTIONS = ['CPython csv module: transcribed in model/Csv.v (writer with lineterminator LF, excel-dialect reader, DictReader) and compared with csv.reader / csv.writer on every run',
               'cells contain no CR (a CR is not quoted by the writer and does not survive a text file: outside the stated domain)']
SAFE = 'ABCDEFGHIJKLMNOPQRSTUVWXYZabcdefghijklmnopqrstuvwxyz0123456789 ,"\'\\/-.;:#@()'


THREADS = True


def thread_ok(case):
    return case.get('via') == 'func'

def columns():
    from cardutil.config import config
    pk = config['bit_config']
    cols = []
    for c in config['output_data_elements']:
        if c == 'MTI' or c.startswith('PDS'):
            cols.append(c)
        elif iu.DE_RE.match(c) and c[2:] in pk:
            cols.append(c)
    return cols


def cell(rng, col, pk):
    if col == 'MTI':
        return ''.join(rng.choice('0123456789') for _ in range(4))
    if col.startswith('PDS'):
        n = rng.choice([1, 2, 5, 20, 60])
        return ''.join(rng.choice(SAFE) for _ in range(n))
    c = pk[col[2:]]
    pt = c.get('field_python_type')
    if pt in ('int', 'long'):
        w = c['field_length']
        return str(rng.choice([0, 1, 10 ** w - 1, rng.randrange(0, 10 ** w)]))
    if pt == 'datetime':
        d = iu.rand_date(rng, c['field_date_format'])
        r = rng.random()
        if r < 0.15:
            return d.isoformat()                     # ISO 8601 proper: 'T' between date and time
        if r < 0.22 and 'S' in c['field_date_format']:
            d = d.replace(second=0)
            return d.isoformat(sep=rng.choice(' T'), timespec='minutes')
        if r < 0.28 and 'H' in c['field_date_format']:
            return d.replace(hour=0, minute=0, second=0).date().isoformat()     # a date alone is midnight
        return str(d)
    if c['field_type'] == 'FIXED':
        n = c['field_length']
    else:
        vmax = 99 if c['field_type'] == 'LLVAR' else 999
        n = rng.choice([1, 2, vmax - 1, vmax, rng.randint(1, vmax), rng.randint(1, 20)])
    if c.get('field_processor') == 'PDS':
        return iu.pds_sub(rng.randrange(10000), ''.join(rng.choice(SAFE) for _ in range(rng.choice([0, 3, 12]))))
    s = ''.join(rng.choice(SAFE) for _ in range(n))
    if n >= 2 and rng.random() < 0.15:
        # letters outside ASCII that both codec families have (the csv files are then not pure ASCII)
        k = rng.randrange(n)
        s = s[:k] + rng.choice('\u00e9\u00fc\u00a3\u00a7\u00c5') + s[k + 1:]
    if n >= 3 and rng.random() < 0.3:
        s = ' ' + s[1:-1] + ' '
    if n >= 3 and rng.random() < 0.08:
        # a line feed inside a cell: the csv writer quotes it and the reader keeps it (a CR would not survive a text file)
        k = rng.randrange(n)
        s = s[:k] + '\n' + s[k + 1:]
    return s


def gen(rng, tier):
    from cardutil.config import config
    pk = config['bit_config']
    cols_all = columns()
    cases = []
    for i in range(150 if tier == 'quick' else 3000):
        use_pds = rng.random() < 0.5
        cols = [c for c in cols_all if (c.startswith('PDS') if use_pds else True) or not (c[2:] in pk and pk.get(c[2:], {}).get('field_processor') == 'PDS')]
        if use_pds:
            cols = [c for c in cols_all if not (c.startswith('DE') and pk[c[2:]].get('field_processor') == 'PDS')]
        else:
            cols = [c for c in cols_all if not c.startswith('PDS')]
        mixed = i % 5 == 4
        if mixed:
            # both the carrier columns and PDS columns are present; every row uses one kind only (a row that carries its
            # PDS data ready-made in DE48, the next one as sub-elements)
            cols = list(cols_all)
        if rng.random() < 0.5:
            cols = ['MTI'] + rng.sample([c for c in cols if c != 'MTI'], rng.randrange(1, len(cols) - 1))
        is_carrier = lambda c: c.startswith('DE') and pk[c[2:]].get('field_processor') == 'PDS'
        rows = []
        for _ in range(rng.choice([1, 2, 5, 20, 50]) if i % 7 else 1):
            row = [cell(rng, c, pk) if (c == 'MTI' or rng.random() < 0.7) else '' for c in cols]
            if mixed:
                drop = (lambda c: c.startswith('PDS')) if rng.random() < 0.5 else is_carrier
                row = ['' if drop(c) else v for c, v in zip(cols, row)]
            rows.append(row)
        cases.append({'cols': cols, 'rows': rows, 'codec': rng.choice(['latin_1', 'cp500']), 'blocked': rng.random() < 0.5, 'via': ['cli', 'cli-config', 'cli-mideu', 'cli-env', 'cli-nolist', 'cli-mideu'][(i // 3) % 6] if i % 3 == 0 else 'func'})
    # the csv layer by itself (model/Csv.v is a transcription of CPython's _csv.c): arbitrary and malformed texts through
    # csv.reader - as a StringIO (lines end at LF only) and as a text file would deliver them (CR / CRLF read as LF) -,
    # arbitrary rows through csv.writer(lineterminator="\n")
    alpha = 'ab ' + ',' * 3 + '"' * 4 + '\n\n\r\t' + "'" + 'x\u00e9\u20ac;'
    for i in range(400 if tier == 'quick' else 8000):
        n = rng.choice([0, 1, 2, 3, 5, 8, 13, 30])
        cases.append({'kind': 'csvparse', 'nl': rng.random() < 0.4, 'text': ''.join(rng.choice(alpha) for _ in range(n))})
    for i in range(200 if tier == 'quick' else 4000):
        rows = [[''.join(rng.choice(alpha) for _ in range(rng.choice([0, 0, 1, 2, 5]))) for _ in range(rng.choice([0, 1, 1, 2, 3, 6]))]
                for _ in range(rng.choice([0, 1, 2, 4]))]
        cases.append({'kind': 'csvwrite', 'rows': rows})
    if tier != 'quick':
        # the field size limit: the model's constant against csv.field_size_limit(), and fields of a few thousand characters
        # (the extracted model reverses a field with Coq's quadratic `rev`: 131072-character fields are not run through it)
        cases.append({'kind': 'csvlimit'})
        for n in (1000, 4000, 8000):
            cases.append({'kind': 'csvparse', 'nl': False, 'text': 'a,' + 'x' * n + '\n'})
            cases.append({'kind': 'csvparse', 'nl': False, 'text': '"' + 'x' * n})
    return cases


def ctable_text(rows):
    return '/'.join('.' if not r else ','.join(hs(c) if c else '_' for c in r) for r in rows) or '-'


def csv_outcome(fn, render):
    try:
        return 'OK ' + render(fn())
    except csv.Error:
        return 'RAISE OTHER:?'
    except Exception as ex:
        from util import exc_class
        return 'RAISE ' + exc_class(ex)


def csv_text(cols, rows):
    out = io.StringIO()
    w = csv.writer(out, lineterminator='\n')
    w.writerow(cols)
    w.writerows(rows)
    return out.getvalue()


def impl(case):
    if case.get('kind') == 'csvlimit':
        return {'out': 'OK %d' % csv.field_size_limit()}
    if case.get('kind') == 'csvparse':
        return {'out': csv_outcome(lambda: list(csv.reader(io.StringIO(case['text'], newline=None) if case['nl'] else io.StringIO(case['text']))), ctable_text)}
    if case.get('kind') == 'csvwrite':
        def wr():
            o = io.StringIO()
            csv.writer(o, lineterminator='\n').writerows(case['rows'])
            return o.getvalue()
        # what was written reads back (the oracle assumption of the row-level theorem, here checked on CPython itself)
        return {'out': csv_outcome(wr, hs), 'back': csv_outcome(lambda: list(csv.reader(io.StringIO(wr()))), ctable_text)}
    from cardutil.config import config
    from cardutil.cli import mci_csv_to_ipm, mci_ipm_to_csv
    text = csv_text(case['cols'], case['rows'])
    nb = not case['blocked']

    def run():
        if case['via'] == 'func':
            ipm = io.BytesIO()
            mci_csv_to_ipm.mci_csv_to_ipm(in_csv=io.StringIO(text), out_ipm=ipm, config=config, out_encoding=case['codec'], no1014blocking=nb)
            out = io.StringIO()
            from props.framing import in_stream
            mci_ipm_to_csv.mci_ipm_to_csv(in_ipm=in_stream(ipm.getvalue(), case['blocked']), out_csv=out, config=config, in_encoding=case['codec'], no1014blocking=nb)
            return ipm.getvalue(), out.getvalue()
        base = os.path.join(os.getcwd(), 'c20_%d' % os.getpid())
        cfg_args, env_dir = [], None
        try:
            # the tools' own ways of receiving a configuration: --config-file, or cardutil.json in $CARDUTIL_CONFIG.
            # The file holds the packaged configuration (or, `nolist`, the same without the output column list)
            if case['via'] in ('cli-config', 'cli-env', 'cli-nolist'):
                import json
                c = dict(config)
                if case['via'] == 'cli-nolist':
                    c.pop('output_data_elements', None)
                if case['via'] == 'cli-env':
                    env_dir = base + '_cfg'
                    os.makedirs(env_dir, exist_ok=True)
                    with open(os.path.join(env_dir, 'cardutil.json'), 'w') as f:
                        json.dump(c, f)
                    os.environ['CARDUTIL_CONFIG'] = env_dir
                else:
                    with open(base + '.json', 'w') as f:
                        json.dump(c, f)
                    cfg_args = ['--config-file', base + '.json']
            # (every other command line case leaves the csv encodings to the tools' defaults: the files are then written and
            # read here with the platform default too - the two tools must agree with it and with each other)
            defenc = len(text) % 2 == 1
            csv_enc = None if defenc else 'utf8'
            with open(base + '.csv', 'w', encoding=csv_enc, newline='') as f:
                f.write(text)
            with contextlib.redirect_stdout(io.StringIO()):
                a = cfg_args + ['--out-encoding', case['codec']] + (['--no1014blocking'] if nb else [])
                mci_csv_to_ipm.cli_run(**vars(mci_csv_to_ipm.cli_parser().parse_args([base + '.csv', '-o', base + '.ipm'] + ([] if defenc else ['--in-encoding', 'utf8']) + a)))
                if case['via'] == 'cli-mideu':
                    # the other extraction command: mideu extract (source format by name, its own blocking switch)
                    from cardutil.cli import mideu
                    mideu.cli_entry(['extract', base + '.ipm', '-s', 'ebcdic' if case['codec'] == 'cp500' else 'ascii', '--csvoutputfile', base + '.out.csv']
                                    + (['--no1014blocking'] if nb else []))
                else:
                    a = cfg_args + ['--in-encoding', case['codec']] + (['--no1014blocking'] if nb else [])
                    mci_ipm_to_csv.cli_run(**vars(mci_ipm_to_csv.cli_parser().parse_args([base + '.ipm', '-o', base + '.out.csv'] + ([] if defenc else ['--out-encoding', 'utf8']) + a)))
            with open(base + '.ipm', 'rb') as f:
                ipm = f.read()
            with open(base + '.out.csv', 'r', encoding='utf8' if case['via'] == 'cli-mideu' else csv_enc, newline='') as f:
                return ipm, f.read()
        finally:
            for ext in ('.csv', '.ipm', '.out.csv', '.json'):
                if os.path.exists(base + ext):
                    os.unlink(base + ext)
            if env_dir:
                os.environ.pop('CARDUTIL_CONFIG', None)
                import shutil
                shutil.rmtree(env_dir, ignore_errors=True)
    try:
        ipm, out = run()
    except Exception as ex:
        from util import exc_class
        return {'out': 'RAISE ' + exc_class(ex)}
    back = list(csv.DictReader(io.StringIO(out)))
    # without an output column list the tool writes the columns that occur: a column that is empty in every row is absent
    absent = '' if case['via'] == 'cli-nolist' else None
    return {'out': 'OK', 'ipm': ipm.hex(), 'rows': [[r.get(c, absent) for c in case['cols']] for r in back], 'n': len(back),
            'text_in': text, 'text_out': out}


def expect_cell(col, x):
    """the cell that must come back: the same text, except that a date-time given in another ISO spelling ('T' separator,
    no seconds, date alone) comes back in the spelling str(datetime) has - the same VALUE"""
    if x and col.startswith('DE') and col[2:].isdigit():
        from cardutil.config import config
        c = config['bit_config'].get(col[2:], {})
        if c.get('field_python_type') == 'datetime':
            import datetime
            return str(datetime.datetime.fromisoformat(x))
    return x


def cols_text(cols):
    return ','.join(iu.key_text(c) for c in cols)


def rows_text(rows):
    return '/'.join(','.join(hs(c).replace('-', '_') if c else '_' for c in r) for r in rows) or '-'


def model_lines(case, io_):
    if case.get('kind') == 'csvlimit':
        return ['csv_limit']
    if case.get('kind') == 'csvparse':
        return ['csv_parse %s %s' % ('1' if case['nl'] else '0', hs(case['text']))]
    if case.get('kind') == 'csvwrite':
        return ['csv_table ' + ctable_text(case['rows'])]
    b = '1' if case['blocked'] else '0'
    lines = ['csv_to_ipm %s %s %s %s' % (iu.hs(case['codec']), b, cols_text(case['cols']), rows_text(case['rows']))]
    if io_.get('out') == 'OK':
        lines.append('ipm_to_rows %s %s %s %s' % (iu.hs(case['codec']), b, cols_text(case['cols']), io_['ipm'] or '-'))
        # the same two steps at TEXT level: the csv text the tool was given, the csv text it wrote (all its columns)
        lines.append('csv_text_to_ipm %s %s %s' % (iu.hs(case['codec']), b, hs(io_['text_in'])))
        if case['via'] != 'cli-nolist':
            from cardutil.config import config
            lines.append('ipm_to_csv_text %s %s %s %s' % (iu.hs(case['codec']), b, cols_text(config['output_data_elements']), io_['ipm'] or '-'))
    return lines


def strip_fill(f):
    n = len(f)
    while n and f[n - 1] == 0x40:
        n -= 1
    return f[:n]


def judge(case, io_, mo):
    ps = []
    if case.get('kind') == 'csvlimit':
        if mo is not None and mo[0] != io_['out']:
            ps.append({'kind': 'corr', 'sig': 'csv-field-limit', 'msg': 'csv.field_size_limit() is %s, the model constant %s' % (io_['out'], mo[0])})
        return ps
    if case.get('kind') == 'csvparse':
        if mo is not None and mo[0] != io_['out']:
            ps.append({'kind': 'corr', 'sig': 'csv-reader', 'msg': 'csv.reader gives %s, the model %s' % (io_['out'][:80], mo[0][:80])})
        return ps
    if case.get('kind') == 'csvwrite':
        if mo is not None and mo[0] != io_['out']:
            ps.append({'kind': 'corr', 'sig': 'csv-writer', 'msg': 'csv.writer gives %s, the model %s' % (io_['out'][:80], mo[0][:80])})
        if not any('\r' in c for r in case['rows'] for c in r) and io_['back'] != 'OK ' + ctable_text(case['rows']):
            ps.append({'kind': 'oracle', 'sig': 'csv-roundtrip', 'msg': 'CPython csv: reading what was written gives %s' % io_['back'][:80]})
        return ps
    if io_['out'] != 'OK':
        return [{'kind': 'oracle', 'sig': 'tool-failed-' + case['via'], 'msg': 'csv -> ipm -> csv failed: %s' % io_['out']}]
    if io_['n'] != len(case['rows']):
        return [{'kind': 'oracle', 'sig': 'row-count', 'msg': '%d rows in, %d rows out' % (len(case['rows']), io_['n'])}]
    from cardutil.config import config as _cfg
    pkc = _cfg['bit_config']
    pds_related = lambda c: c.startswith('PDS') or (c.startswith('DE') and pkc.get(c[2:], {}).get('field_processor') == 'PDS')
    mixed = any(c.startswith('PDS') for c in case['cols']) and any(pds_related(c) and c.startswith('DE') for c in case['cols'])
    for i, (a, b) in enumerate(zip(case['rows'], io_['rows'])):
        # with carrier AND sub-element columns in one table, a cell the row left empty may come back filled with what
        # decoding derives (the carrier of the row's sub-elements, the sub-elements of the row's carrier): every
        # SUPPLIED cell must come back unchanged
        same = [expect_cell(c, x) == y or (mixed and x == '' and pds_related(c)) for c, x, y in zip(case['cols'], a, b)]
        if not all(same):
            j = same.index(False)
            return [{'kind': 'oracle', 'sig': 'cell-changed', 'msg': 'row %d column %s: %r came back as %r' % (i + 1, case['cols'][j], a[j], b[j])}]
    if mo is not None and not any(m.startswith('UNMODELLED') for m in mo):
        f = bytes.fromhex(io_['ipm'])
        mf = bytes.fromhex(mo[0][3:]) if mo[0].startswith('OK ') and mo[0][3:] != '-' else None
        if mf is None or ((strip_fill(f) != strip_fill(mf)) if case['blocked'] else (f != mf)):
            ps.append({'kind': 'corr', 'sig': 'csv_to_ipm', 'msg': 'IPM file differs from model: %s' % mo[0][:60]})
        elif len(mo) > 1 and mo[1] != 'OK ' + rows_text(io_['rows']):
            ps.append({'kind': 'corr', 'sig': 'ipm_to_rows', 'msg': 'CSV cells differ from model: %s' % mo[1][:100]})
        elif len(mo) > 2 and (not mo[2].startswith('OK ') or ((strip_fill(f) != strip_fill(bytes.fromhex(mo[2][3:]) if mo[2][3:] != '-' else b'')) if case['blocked'] else mo[2] != 'OK ' + (io_['ipm'] or '-'))):
            ps.append({'kind': 'corr', 'sig': 'csv_text_to_ipm', 'msg': 'IPM file differs from the text-level model: %s' % mo[2][:60]})
        elif len(mo) > 3 and mo[3] != 'OK ' + hs(io_['text_out']):
            ps.append({'kind': 'corr', 'sig': 'ipm_to_csv_text', 'msg': 'the CSV text written differs from the text-level model: %s' % mo[3][:100]})
    return ps


def nontrivial(case, io_):
    if case.get('kind') == 'csvlimit':
        return False
    if case.get('kind') == 'csvparse':
        return len(case['text']) >= 2
    return len(case['rows']) >= 2


def label(case):
    if case.get('kind') in ('csvparse', 'csvwrite', 'csvlimit'):
        return case['kind'] + ('/universal-newlines' if case.get('nl') else '')
    n = len(case['rows'])
    return '%s/%s/%s/rows=%s/%s' % (case['via'], case['codec'], '1014' if case['blocked'] else 'vbs', '1' if n == 1 else '2-5' if n <= 5 else '6+',
                                    'pds-columns' if any(c.startswith('PDS') for c in case['cols']) else 'carrier-column')
