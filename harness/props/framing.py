"""shared helpers for the framing properties (C03, C04, C05, C09, C11)"""
import io

B = 1012
BLK = 1014
PAD = 0x40


def coded(start, n, salt=0):
    """position-coded content: byte at absolute offset o is a function of o, so a misplaced byte is visible"""
    return bytes(((o * 131) + (o >> 8) * 17 + 7 + salt) & 0xFF for o in range(start, start + n))


def he(b):
    """bytes -> element of a protocol list ('_' = empty)"""
    return b.hex() if b else '_'


def hlist(items):
    return ','.join(he(x) for x in items) if items else '-'


def unhlist(t):
    if t == '-':
        return []
    return [b'' if x == '_' else bytes.fromhex(x) for x in t.split(',')]


def payload_of(f):
    return b''.join(f[i:i + B] for i in range(0, len(f), BLK))


def well_formed_blocks(f):
    return len(f) % BLK == 0 and all(f[i + B:i + BLK] == b'\x40\x40' for i in range(0, len(f), BLK))


def record_content(rng, n):
    mode = rng.randrange(6)
    if mode == 0:
        return bytes([0]) * n
    if mode == 1:
        return bytes([PAD]) * n
    if mode == 2:
        return (b'\x00\x00\x00\x00' * (n // 4 + 1))[:n]
    if mode == 3:
        return coded(rng.randrange(1 << 16), n)
    return bytes(rng.randrange(256) for _ in range(n))


def lay_ref(d):
    """independent reference: blocked form of d (complete blocks get a trailer; incomplete tail left as is)"""
    out = bytearray()
    for i in range(0, len(d), B):
        c = d[i:i + B]
        out += c
        if len(c) == B:
            out += b'\x40\x40'
    return bytes(out)


def block_ref(d):
    """reference one-shot blocking: fill with 0x40 to whole blocks"""
    if len(d) % B:
        d = d + b'\x40' * (B - len(d) % B)
    return lay_ref(d)


def vbs_ref(rs):
    return b''.join(len(r).to_bytes(4, 'big') + r for r in rs) + b'\x00\x00\x00\x00'


def data_blocks(f, n):
    """the blocks that carry the first n payload bytes"""
    return f[:BLK * ((n + B - 1) // B)]


def slices_ref(p, ns):
    out = []
    for n in ns:
        k = len(p) if n == 0 else n
        out.append(p[:k])
        p = p[k:]
    return out


class _PipeLike(io.RawIOBase):
    """a source that can only be read forward (pipe, socket, HTTP body): not seekable, tell() fails"""
    def __init__(self, data):
        self._b = io.BytesIO(data)

    def readable(self):
        return True

    def seekable(self):
        return False

    def readinto(self, buf):
        chunk = self._b.read(min(len(buf), 700))        # a pipe or socket hands over small pieces
        buf[:len(chunk)] = chunk
        return len(chunk)


class _BlockAtATime(object):
    """a source that hands over at most `cap` bytes (one 1014-byte block; 1500; 4096) per read() call, however much is asked
    for (a transport that delivers the file piece by piece): the unblocker asks for one block at a time, so a source
    that can deliver a block per call is all it needs"""
    def __init__(self, data, cap=1014):
        self._b = io.BytesIO(data)
        self.cap = cap

    def read(self, n=-1):
        return self._b.read(self.cap if n is None or n < 0 or n > self.cap else n)


def in_stream(data, blocked=False):
    """the file object a reader is given: io.BytesIO for half of the inputs, a buffered forward-only stream for the other
    half (chosen by the content, so a replay sees the same kind) - and, for a reader of a BLOCKED file, a source that
    delivers one block per read() for a fifth of them.  The properties speak of files and interrupted transfers; nothing
    in them needs a seekable source."""
    import zlib
    h = zlib.crc32(bytes(data))
    # (sources that hand over LESS than asked for - _BlockAtATime - were tried for blocked readers and withdrawn: the
    # properties speak of files, and a rewrite that fetches several blocks with one read() is right for every file)
    if h & 1:
        return io.BufferedReader(_PipeLike(bytes(data)))
    return io.BytesIO(data)


def read_all_impl(f, blocked):
    """[records], outcome class, record_number, context — through VbsReader"""
    from cardutil import mciipm
    from util import exc_class
    recs = []
    try:
        for r in mciipm.VbsReader(in_stream(f, blocked), blocked=blocked):
            recs.append(r)
    except Exception as ex:
        cls = exc_class(ex)
        if cls == 'DATAERR':
            return recs, 'ERR:%s:%s' % (getattr(ex, 'record_number', None), (getattr(ex, 'binary_context_data', None) or b'').hex() or '-')
        return recs, cls
    return recs, 'END'


def rend_text(recs, end):
    return 'OK ' + hlist(recs) + '|' + end
