#!/bin/sh
# Rewrites evidence/*.json from a quick run of every claimed check on the UNCHANGED tree (default seed).
# Run before committing whenever generators changed or experiments with a patched /repo were made.
cd "$(dirname "$0")/.."
unset VERIF_EVIDENCE_DIR VERIF_REPLAY_DIR VERIF_SEED VERIF_REPO
test -z "$(git -C /repo status --porcelain)" || { echo "/repo is not clean"; exit 1; }
rc=0
for p in C01 C02 C03 C04 C05 C06 C07 C08 C09 C10 C11 C12 C13 C14 C15 C16 C17 C18 C19 C20; do
  ./check $p --tier quick | tail -1 | cut -c1-130
  test "${PIPESTATUS:-0}" = 0 || rc=1
done
exit $rc
