#!/usr/bin/env python3
"""run_harmless.py <patch.diff>... — apply each behaviour-preserving refactor to /repo, run EVERY claimed quick check, undo.
A VIOLATION line here is a false alarm of the machinery (or shows the refactor is not harmless: look at the replay)."""
import json
import os
import subprocess
import sys

VERIF = os.path.dirname(os.path.dirname(os.path.abspath(__file__)))
REPO = '/repo'


def sh(cmd, **kw):
    return subprocess.run(cmd, stdout=subprocess.PIPE, stderr=subprocess.STDOUT, text=True, **kw)


def main():
    # evidence and replays of runs against a MODIFIED /repo must not overwrite the committed ones
    os.environ.setdefault('VERIF_EVIDENCE_DIR', '/tmp/cuv-scratch-evidence')
    os.environ.setdefault('VERIF_REPLAY_DIR', '/tmp/cuv-scratch-replays')
    claimed = [c['property_id'] for c in json.load(open(os.path.join(VERIF, 'MANIFEST.json')))['checks']]
    only = [a[7:].split(',') for a in sys.argv[1:] if a.startswith('--only=')]
    if only:
        claimed = [p for p in claimed if p in only[0]]
    sys.path.insert(0, os.path.dirname(os.path.abspath(__file__)))
    from scratch_repo import patched_copy, check_env
    for patch in [a for a in sys.argv[1:] if not a.startswith('--')]:
        try:
            with patched_copy(patch) as root:
                alarms = []
                for p in claimed:
                    out = sh([os.path.join(VERIF, 'check'), p, '--tier', 'quick'], cwd=VERIF, env=check_env(root)).stdout
                    v = [l for l in out.splitlines() if l.startswith('VIOLATION')]
                    if v:
                        alarms.append((p, v[0]))
        except RuntimeError as ex:
            print(patch, 'PATCH-DOES-NOT-APPLY', str(ex)[:200])
            continue
        print(patch, 'SILENT' if not alarms else 'ALARMS: ' + '; '.join('%s [%s]' % a for a in alarms), flush=True)
    return 0


if __name__ == '__main__':
    sys.exit(main())
