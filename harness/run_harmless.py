#!/usr/bin/env python3
"""run_harmless.py <patch.diff>... — apply each behaviour-preserving refactor to /repo, run EVERY claimed quick check, undo.
A VIOLATION line here is a false alarm of the machinery (or shows the refactor is not harmless: look at the replay)."""
import json
import os
import subprocess
import sys

VERIF = os.path.dirname(os.path.dirname(os.path.abspath(__file__)))
REPO = '/repo'


def sh(cmd, **kw):
    return subprocess.run(cmd, stdout=subprocess.PIPE, stderr=subprocess.STDOUT, text=True, **kw)


def main():
    # evidence and replays of runs against a MODIFIED /repo must not overwrite the committed ones
    os.environ.setdefault('VERIF_EVIDENCE_DIR', '/tmp/cuv-scratch-evidence')
    os.environ.setdefault('VERIF_REPLAY_DIR', '/tmp/cuv-scratch-replays')
    claimed = [c['property_id'] for c in json.load(open(os.path.join(VERIF, 'MANIFEST.json')))['checks']]
    only = [a[7:].split(',') for a in sys.argv[1:] if a.startswith('--only=')]
    if only:
        claimed = [p for p in claimed if p in only[0]]
    assert sh(['git', '-C', REPO, 'status', '--porcelain']).stdout.strip() == '', '/repo is not clean'
    for patch in [a for a in sys.argv[1:] if not a.startswith('--')]:
        r = sh(['git', '-C', REPO, 'apply', os.path.abspath(patch)])
        if r.returncode != 0:
            print(patch, 'PATCH-DOES-NOT-APPLY', r.stdout[:200])
            continue
        alarms = []
        try:
            for p in claimed:
                out = sh([os.path.join(VERIF, 'check'), p, '--tier', 'quick'], cwd=VERIF).stdout
                v = [l for l in out.splitlines() if l.startswith('VIOLATION')]
                if v:
                    alarms.append((p, v[0]))
        finally:
            sh(['git', '-C', REPO, 'checkout', '--', '.'])
        print(patch, 'SILENT' if not alarms else 'ALARMS: ' + '; '.join('%s [%s]' % a for a in alarms))
    return 0


if __name__ == '__main__':
    sys.exit(main())
