#!/usr/bin/env python3
"""run_seeded.py [ids...] — apply each /verif/seeded/<name>/patch.diff to /repo, run the target property's quick check
(and optionally every claimed check with --all), undo the patch, and print one line per mutation.
Never leaves /repo modified: the patch is reverted with `git checkout -- .` even on errors."""
import json
import os
import subprocess
import sys

VERIF = os.path.dirname(os.path.dirname(os.path.abspath(__file__)))
REPO = '/repo'


def sh(cmd, **kw):
    return subprocess.run(cmd, stdout=subprocess.PIPE, stderr=subprocess.STDOUT, text=True, **kw)


def main():
    # evidence and replays of runs against a MODIFIED /repo must not overwrite the committed ones
    os.environ.setdefault('VERIF_EVIDENCE_DIR', '/tmp/cuv-scratch-evidence')
    os.environ.setdefault('VERIF_REPLAY_DIR', '/tmp/cuv-scratch-replays')
    args = [a for a in sys.argv[1:] if not a.startswith('--')]
    run_all = '--all' in sys.argv
    tier = 'thorough' if '--thorough' in sys.argv else 'quick'
    names = sorted(os.listdir(os.path.join(VERIF, 'seeded')))
    if args:
        names = [n for n in names if any(n.startswith(a) for a in args)]
    claimed = [c['property_id'] for c in json.load(open(os.path.join(VERIF, 'MANIFEST.json')))['checks']]
    import concurrent.futures
    from scratch_repo import patched_copy, check_env

    def one(n):
        d = os.path.join(VERIF, 'seeded', n)
        if not os.path.exists(os.path.join(d, 'meta.json')):
            return None
        meta = json.load(open(os.path.join(d, 'meta.json')))
        prop = meta['property']
        try:
            with patched_copy(os.path.join(d, 'patch.diff')) as root:
                hits = []
                for p in (claimed if run_all else [prop]):
                    out = sh([os.path.join(VERIF, 'check'), p, '--tier', tier], cwd=VERIF, env=check_env(root)).stdout
                    v = [l for l in out.splitlines() if l.startswith('VIOLATION')]
                    if v:
                        hits.append(p + ('(no-failing-input)' if all('no-failing-input-found' in l for l in v) else ''))
                caught = any(h.startswith(prop) for h in hits)
                return (n, prop, 'CAUGHT' if caught else 'OUT-OF-SCOPE (not reported, as recorded in meta.json)' if meta.get('not_reported_because') else 'MISSED', ' '.join(hits))
        except RuntimeError:
            return (n, prop, 'PATCH-DOES-NOT-APPLY', '')
    jobs = 4
    for a in sys.argv[1:]:
        if a.startswith('--jobs='):
            jobs = int(a[7:])
    with concurrent.futures.ThreadPoolExecutor(max_workers=jobs) as ex:
        rows = [r for r in ex.map(one, names) if r]
    for r in rows:
        print('%-28s target=%s %-8s by: %s' % r)
    return 0


if __name__ == '__main__':
    sys.path.insert(0, os.path.dirname(os.path.abspath(__file__)))
    sys.exit(main())
