"""rx.py — translate a DE43 splitting pattern (field_processor_config) into the regex fragment of model/Regex.v.

The pattern is parsed by CPython's own regex parser (re._parser), so the translation starts from what `re` will really
match, not from a second reading of the pattern text.  Anything outside the fragment (alternation, back references,
look-around, quantified groups, flags, word/other categories ...) gives None: the generator then emits D43Unsupported and
decoding such an element is Unmodelled.  Fail-closed: an unknown opcode is never guessed.

ast ::= [item]
item ::= ('char', cls, mn, mx|None, greedy) | ('group', name|None, [item]) | ('end', strict) | ('start',)
cls  ::= ('any',) | ('set', neg, [ci]);  ci ::= ('lit', c) | ('range', lo, hi) | ('space', neg) | ('digit', neg)
"""
import re

try:
    import re._parser as sre_parse
    import re._constants as sre_c
except ImportError:                       # Python < 3.11
    import sre_parse
    import sre_constants as sre_c

ALLOWED_FLAGS = sre_c.SRE_FLAG_UNICODE


class Unsupported(Exception):
    pass


def _cls_items(av):
    neg = False
    items = []
    for op, a in av:
        if op is sre_c.NEGATE:
            neg = True
        elif op is sre_c.LITERAL:
            items.append(('lit', a))
        elif op is sre_c.RANGE:
            items.append(('range', a[0], a[1]))
        elif op is sre_c.CATEGORY:
            if a is sre_c.CATEGORY_SPACE:
                items.append(('space', False))
            elif a is sre_c.CATEGORY_NOT_SPACE:
                items.append(('space', True))
            elif a is sre_c.CATEGORY_DIGIT:
                items.append(('digit', False))
            elif a is sre_c.CATEGORY_NOT_DIGIT:
                items.append(('digit', True))
            else:
                raise Unsupported('category %s' % a)
        else:
            raise Unsupported('set item %s' % op)
    return ('set', neg, items)


def _atom(op, av):
    """a single-character atom, or None"""
    if op is sre_c.ANY:
        return ('any',)
    if op is sre_c.LITERAL:
        return ('set', False, [('lit', av)])
    if op is sre_c.NOT_LITERAL:
        return ('set', True, [('lit', av)])
    if op is sre_c.IN:
        return _cls_items(av)
    return None


def _seq(sub, names):
    out = []
    for op, av in sub:
        a = _atom(op, av)
        if a is not None:
            out.append(('char', a, 1, 1, True))
        elif op in (sre_c.MAX_REPEAT, sre_c.MIN_REPEAT):
            mn, mx, body = av
            body = list(body)
            if len(body) != 1:
                raise Unsupported('quantified group')
            a = _atom(*body[0])
            if a is None:
                raise Unsupported('quantifier over %s' % body[0][0])
            out.append(('char', a, mn, None if mx == sre_c.MAXREPEAT else mx, op is sre_c.MAX_REPEAT))
        elif op is sre_c.SUBPATTERN:
            group, add_flags, del_flags, body = av
            if add_flags or del_flags:
                raise Unsupported('inline flags')
            inner = _seq(body, names)
            if group is None:
                out.extend(inner)                       # (?:...) not quantified: just its contents
            else:
                out.append(('group', names.get(group), inner))
        elif op is sre_c.AT:
            if av is sre_c.AT_END:
                out.append(('end', False))
            elif av is sre_c.AT_END_STRING:
                out.append(('end', True))
            elif av in (sre_c.AT_BEGINNING, sre_c.AT_BEGINNING_STRING):
                out.append(('start',))
            else:
                raise Unsupported('anchor %s' % av)
        else:
            raise Unsupported('opcode %s' % op)
    return out


def translate(pattern):
    """pattern (str) -> ast, or None when the pattern is outside the fragment.  Raises re.error if it does not compile."""
    re.compile(pattern)
    p = sre_parse.parse(pattern)
    if p.state.flags & ~ALLOWED_FLAGS:
        return None
    names = {idx: name for name, idx in p.state.groupdict.items()}
    if any(not n.startswith('DE43_') for n in names.values()):
        return None          # a group named like another key class (DE2, MTI, PDS0001 ...) would overwrite that entry
    try:
        return _seq(p, names)
    except Unsupported:
        return None


def group_names(ast):
    out = []
    for it in ast:
        if it[0] == 'group':
            if it[1] is not None:
                out.append(it[1])
            out.extend(group_names(it[2]))
    return out


# ---------------------------------------------------------------- Coq text
def _coq_str(s):
    return '[' + '; '.join(str(ord(c)) for c in s) + ']%N' if s else '[]'


def _coq_ci(ci):
    if ci[0] == 'lit':
        return 'CILit %d' % ci[1]
    if ci[0] == 'range':
        return 'CIRange %d %d' % (ci[1], ci[2])
    return '%s %s' % ('CISpace' if ci[0] == 'space' else 'CIDigit', 'true' if ci[1] else 'false')


def _coq_cls(c):
    if c[0] == 'any':
        return 'CAny'
    return '(CSet %s [%s])' % ('true' if c[1] else 'false', '; '.join(_coq_ci(x) for x in c[2]))


def coq(ast):
    parts = []
    for it in ast:
        if it[0] == 'char':
            parts.append('RChar %s %d %s %s' % (_coq_cls(it[1]), it[2], 'None' if it[3] is None else '(Some %d)' % it[3],
                                                'true' if it[4] else 'false'))
        elif it[0] == 'group':
            parts.append('RGroup %s %s' % ('None' if it[1] is None else '(Some %s)' % _coq_str(it[1]), coq(it[2])))
        elif it[0] == 'end':
            parts.append('REnd %s' % ('true' if it[1] else 'false'))
        else:
            parts.append('RStart')
    return '[' + '; '.join(parts) + ']'


def coq_cfg(pattern):
    """the Gallina term of type de43cfg for a field_processor_config value"""
    if not pattern:
        return 'D43None'
    if not isinstance(pattern, str):
        return 'D43Unsupported'
    ast = translate(pattern)
    return 'D43Unsupported' if ast is None else '(D43Re %s)' % coq(ast)


# ---------------------------------------------------------------- line protocol text (letters, digits, '.', '_' only)
def _hs(s):
    return ''.join('%04x' % ord(c) for c in s)


def _p_ci(ci):
    if ci[0] == 'lit':
        return 'L%d' % ci[1]
    if ci[0] == 'range':
        return 'R%dt%d' % (ci[1], ci[2])
    return ('W' if ci[0] == 'space' else 'N') + ('1' if ci[1] else '0')


def _p_quant(it):
    return '%dx%s%s' % (it[2], 'i' if it[3] is None else str(it[3]), 'g' if it[4] else 'l')


def proto(ast):
    toks = []
    for it in ast:
        if it[0] == 'char':
            c = it[1]
            if c[0] == 'any':
                toks.append('a' + _p_quant(it))
            else:
                toks.append('s' + ('1' if c[1] else '0') + '_'.join(_p_ci(x) for x in c[2]) + 'q' + _p_quant(it))
        elif it[0] == 'group':
            toks.append('g' + (_hs(it[1]) if it[1] is not None else ''))
            inner = proto(it[2])
            if inner:
                toks.append(inner)
            toks.append('e')
        elif it[0] == 'end':
            toks.append('z' + ('1' if it[1] else '0'))
        else:
            toks.append('b')
    return '.'.join(toks)


def proto_cfg(pattern):
    if not pattern:
        return '0'
    if not isinstance(pattern, str):
        return 'U'
    ast = translate(pattern)
    if ast is None:
        return 'U'
    return 'r' + proto(ast)


if __name__ == '__main__':
    import sys
    pat = sys.argv[1]
    a = translate(pat)
    print(a)
    if a is not None:
        print(coq(a))
        print(proto(a))
