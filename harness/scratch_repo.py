"""scratch_repo.py — a throw-away copy of /repo's committed tree with a patch applied, for experiments.
The registered checks always run against /repo itself; the experiment runners (seeded changes, harmless rewrites, sweeps)
point the same checks at such a copy through VERIF_REPO, so /repo is never modified and runs can go on side by side."""
import contextlib
import os
import shutil
import subprocess
import tempfile

REPO = '/repo'


@contextlib.contextmanager
def patched_copy(patch=None):
    base = tempfile.mkdtemp(prefix='cuv-repo-')
    try:
        subprocess.run('git -C %s archive HEAD | tar -x -C %s' % (REPO, base), shell=True, check=True)
        if patch:
            r = subprocess.run(['patch', '-p1', '-s', '-i', os.path.abspath(patch)], cwd=base, stdout=subprocess.PIPE, stderr=subprocess.STDOUT, text=True)
            if r.returncode != 0:
                raise RuntimeError('patch does not apply: ' + r.stdout[-300:])
        yield base
    finally:
        shutil.rmtree(base, ignore_errors=True)


def check_env(root):
    scratch = os.path.join(root, '.cuv')
    return dict(os.environ, VERIF_REPO=root, VERIF_EVIDENCE_DIR=os.path.join(scratch, 'ev'), VERIF_REPLAY_DIR=os.path.join(scratch, 'rp'))
