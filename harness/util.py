"""util.py — canonical encodings shared by the property modules (harness side of the line protocol)."""


def hb(b):
    """bytes -> protocol text"""
    return b.hex() if b else '-'


def hs(s):
    """str -> protocol text (4 hex digits per code point)"""
    return ''.join('%04x' % ord(c) for c in s) if s else '-'


def unhs(t):
    return '' if t == '-' else ''.join(chr(int(t[i:i + 4], 16)) for i in range(0, len(t), 4))


def unhb(t):
    return b'' if t == '-' else bytes.fromhex(t)


def exc_class(ex):
    """canonical outcome class of an exception raised by the code under test"""
    try:
        from cardutil import CardutilError
    except Exception:  # pragma: no cover
        CardutilError = ()
    if CardutilError and isinstance(ex, CardutilError):
        return 'DATAERR'
    if isinstance(ex, AssertionError):
        return 'ASSERT'
    if isinstance(ex, UnicodeError):
        return 'OTHER:UnicodeError'
    return 'OTHER:' + type(ex).__name__


def outcome(fn, render=lambda x: x):
    """run fn(); 'OK <rendered>' or 'RAISE <class>' in the driver's output syntax"""
    try:
        v = fn()
    except Exception as ex:
        return 'RAISE ' + exc_class(ex)
    return 'OK ' + render(v)
