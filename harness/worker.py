"""worker.py <module> <in.json> <out.jsonl> <timeout> — runs prop.impl(case) for each case against /repo.
Each case runs under a SIGALRM watchdog; a hang is the observed outcome HANG, not a stuck check."""
import importlib
import json
import logging
import os
import signal
import sys

sys.path.insert(0, os.path.dirname(os.path.abspath(__file__)))
logging.disable(logging.CRITICAL)


class Hang(BaseException):
    pass


def on_alarm(signum, frame):
    raise Hang()


def main():
    mod = importlib.import_module(sys.argv[1])
    cases = json.load(open(sys.argv[2]))
    timeout = float(sys.argv[4])
    signal.signal(signal.SIGALRM, on_alarm)
    with open(sys.argv[3], 'w') as out:
        for c in cases:
            signal.setitimer(signal.ITIMER_REAL, timeout)
            try:
                r = mod.impl(c)
            except Hang:
                r = {'out': 'HANG'}
            except BaseException as ex:  # harness error, not an outcome of the code under test
                r = {'out': 'HARNESS', 'err': '%s: %s' % (type(ex).__name__, ex)}
            finally:
                signal.setitimer(signal.ITIMER_REAL, 0)
            out.write(json.dumps(r) + '\n')
            out.flush()


main()
