"""worker.py <module> <in.json> <out.jsonl> <timeout> — runs prop.impl(case) for each case against /repo.
Each case runs under a SIGALRM watchdog; a hang is the observed outcome HANG, not a stuck check."""
import importlib
import json
import logging
import os
import signal
import sys

sys.path.insert(0, os.path.dirname(os.path.abspath(__file__)))
if os.environ.get('CUV_DEBUG_LOG'):
    # profile B: DEBUG logging is ON (as with the tools' --debug), the records go nowhere
    logging.getLogger().addHandler(logging.NullHandler())
    logging.getLogger().setLevel(logging.DEBUG)
else:
    logging.disable(logging.CRITICAL)
if os.environ.get('TZ'):
    import time
    time.tzset()


class Hang(BaseException):
    pass


# Python knows every codec under several names; the library hands the name it is given to str.encode / bytes.decode, so
# any spelling of the same codec must behave alike.  For property modules that opt in (CODEC_ALIASES = True) the
# implementation run of one case in three gets an alias spelling (chosen from the case's content, so a replay repeats it);
# the model and the judge keep the canonical name.
CODEC_NAMES = {'latin_1': ['latin-1', 'iso-8859-1', 'L1', 'ISO8859-1', 'latin1', 'LATIN_1'], 'ascii': ['us-ascii', 'ASCII', '646'],
               'cp1252': ['windows-1252', 'CP1252'], 'cp437': ['IBM437', '437'], 'iso8859_15': ['iso-8859-15', 'L9'],
               'cp037': ['IBM037', 'ebcdic-cp-us', 'CP037'], 'cp500': ['IBM500', 'ebcdic-cp-be', 'CP500'],
               'cp1140': ['ibm1140', 'CP1140'], 'cp273': ['IBM273', '273'], 'cp1026': ['ibm1026', 'CP1026'], 'cp875': ['CP875'],
               'cp424': ['IBM424', 'ebcdic-cp-he']}


def install_call_variants(mod):
    """For property modules that opt in (CALL_VARIANTS = True) the harness's own calls of iso8583.loads / iso8583.dumps
    (made through the module attribute; the library's internal calls are untouched) are varied, deterministically from
    the argument's content:
      * loads: the message is handed over as a bytearray for one call in three (the unchanged code reads it like bytes), and for one call in four an EARLIER CALL THAT FAILS is made first - the same header and bitmap with
        the data cut in half, or with the data overwritten by 0xFF - so that whatever a failed decode leaves behind (a half
        filled memo table for that bitmap, a shared buffer) is in place when the real call is made;
      * dumps: for one call in four a failing call is made first (the same message plus a value no prefix can count).
    The model is stateless and argument types do not exist for it, so it is the reference."""
    if not getattr(mod, 'CALL_VARIANTS', False):
        return
    import zlib
    from cardutil import iso8583
    real_loads, real_dumps = iso8583.loads, iso8583.dumps

    def loads(b, *a, **k):
        if isinstance(b, (bytes, bytearray)):
            h = zlib.crc32(bytes(b))
            hexbm = k.get('hex_bitmap', a[2] if len(a) > 2 else False)
            hdr = 36 if hexbm else 20
            if h % 4 == 1 and len(b) > hdr + 1:
                bad = bytes(b[:hdr]) + (bytes(b[hdr:hdr + (len(b) - hdr) // 2]) if h & 16 else b'\xff' * (len(b) - hdr))
                try:
                    real_loads(bad, *a, **k)
                except Exception:
                    pass
            if h % 3 == 1:
                b = bytearray(b)            # (memoryview was tried too and dropped: "byte string" does not promise it)
            if h % 5 == 2 and not a and set(k) <= {'encoding', 'iso_config', 'hex_bitmap'}:
                # the documented parameter order, by position: loads(b, encoding, iso_config, hex_bitmap)
                return real_loads(b, k.get('encoding'), k.get('iso_config'), k.get('hex_bitmap', False))
        return real_loads(b, *a, **k)

    def dumps(m, *a, **k):
        if isinstance(m, dict):
            h = zlib.crc32(repr(sorted((str(x), str(y)) for x, y in m.items())).encode('utf8', 'replace'))
            if h % 4 == 1:
                bad = dict(m)
                bad['DE2'] = '9' * 1200
                bad['PDS0001'] = 'x' * 1200
                try:
                    real_dumps(bad, *a, **k)
                except Exception:
                    pass
            if h % 5 == 2 and not a and set(k) <= {'encoding', 'iso_config', 'hex_bitmap'}:
                # dumps(obj, encoding, iso_config, hex_bitmap) by position
                return real_dumps(m, k.get('encoding'), k.get('iso_config'), k.get('hex_bitmap', False))
        return real_dumps(m, *a, **k)
    iso8583.loads, iso8583.dumps = loads, dumps


# The documented parameter lists of the public entry points (cardutil 's own signatures at the pinned commit): name ->
# (owner path, [(parameter, default or REQUIRED)...] after the first argument).  For every call that reaches one of them
# with arguments given ONLY by keyword (or only by position), one call in four is re-made the other way round - keyword
# arguments turned into positional ones in the documented order, positional ones into keywords with the documented names.
# A parameter inserted, renamed or reordered in a signature changes what such a call means; the model has no call syntax.
REQUIRED = object()
SIGNATURES = [
    ('cardutil.mciipm', 'IpmReader.__init__', ['encoding', 'iso_config'], [None, None]),
    ('cardutil.mciipm', 'IpmWriter.__init__', ['encoding', 'iso_config'], [None, None]),
    ('cardutil.mciipm', 'IpmParamReader.__init__', ['table_id', 'encoding', 'param_config', 'expanded'], [REQUIRED, None, None, False]),
    ('cardutil.mciipm', 'VbsReader.__init__', ['blocked'], [False]),
    ('cardutil.mciipm', 'VbsWriter.__init__', ['blocked'], [False]),
    ('cardutil.card', 'mask', ['mask_char'], ['*']),
    ('cardutil.key', 'calculate_kcv', ['kvc_length'], [6]),
    ('cardutil.key', 'encrypt_key', ['master_key'], [REQUIRED]),
    ('cardutil.pinblock', 'calculate_pvv', ['pvv_key', 'key_index', 'card_number'], [REQUIRED, REQUIRED, REQUIRED]),
]


def install_call_styles():
    import functools
    import zlib

    def simple(x):
        return repr(x)[:80] if isinstance(x, (str, int, bool, type(None))) else (bytes(x[:32]).hex() if isinstance(x, (bytes, bytearray)) else type(x).__name__)

    def wrap(fn, names, defaults, is_init):
        skip = 2 if is_init else 1             # self + the first argument / the first argument

        @functools.wraps(fn)
        def call(*a, **k):
            try:
                h = zlib.crc32(('|'.join(simple(x) for x in a[skip - 1:]) + '#' + '|'.join('%s=%s' % (n, simple(v)) for n, v in sorted(k.items()))).encode('utf8', 'replace'))
            except Exception:
                h = 1
            if h % 4 == 0:
                extra = a[skip:]
                if not extra and k and set(k) <= set(names):
                    # keywords -> positions, up to the last one given; impossible if a required one in between is missing
                    last = max(names.index(n) for n in k)
                    vals = [k.get(n, d) for n, d in zip(names[:last + 1], defaults[:last + 1])]
                    if not any(v is REQUIRED for v in vals):
                        return fn(*a, *vals)
                elif extra and len(extra) <= len(names) and not (set(k) & set(names[:len(extra)])):
                    # positions -> keywords with the documented names
                    return fn(*a[:skip], **dict(zip(names, extra)), **k)
            return fn(*a, **k)
        return call
    import importlib
    for modname, path, names, defaults in SIGNATURES:
        try:
            m = importlib.import_module(modname)
            owner, attr = (m, path) if '.' not in path else (getattr(m, path.split('.')[0]), path.split('.')[1])
            setattr(owner, attr, wrap(getattr(owner, attr), names, defaults, attr == '__init__'))
        except Exception:
            pass                                # an entry point that is gone shows up in the checks themselves


def for_impl(mod, c):
    if not getattr(mod, 'CODEC_ALIASES', False) or not isinstance(c, dict):
        return c
    import zlib
    h = zlib.crc32(json.dumps(c, sort_keys=True).encode())
    if h % 3:
        return c

    def al(name, k):
        v = CODEC_NAMES.get(name)
        return v[((h >> 4) + k) % len(v)] if v else name
    c2 = dict(c)
    if isinstance(c2.get('codec'), str):
        c2['codec'] = al(c2['codec'], 0)
    for key in ('warm', 'insts'):
        if isinstance(c2.get(key), list):
            c2[key] = [dict(w, codec=al(w['codec'], i + 1)) if isinstance(w, dict) and isinstance(w.get('codec'), str) else w
                       for i, w in enumerate(c2[key])]
    return c2


def on_alarm(signum, frame):
    raise Hang()


def start_line_probe():
    """development aid (CUV_COVER=<dir>): record which lines of cardutil/ the implementation run executes, so that code
    no generated case reaches can be found; never active in a registered check"""
    outdir = os.environ.get('CUV_COVER')
    if not outdir or not hasattr(sys, 'monitoring'):
        return
    import atexit
    mon = sys.monitoring
    tool = mon.COVERAGE_ID
    mon.use_tool_id(tool, 'cuv')
    seen = {}

    def on_line(code, line):
        fn = code.co_filename
        if '/cardutil/' in fn:
            seen.setdefault(fn, set()).add(line)
        return mon.DISABLE
    mon.register_callback(tool, mon.events.LINE, on_line)
    mon.set_events(tool, mon.events.LINE)

    def dump():
        os.makedirs(outdir, exist_ok=True)
        with open(os.path.join(outdir, 'lines-%d.json' % os.getpid()), 'w') as f:
            json.dump({k: sorted(v) for k, v in seen.items()}, f)
    atexit.register(dump)


def thread_pass(mod, cases, seq, timeout):
    """re-run up to 160 deterministic cases of this shard in 4 threads with a very short switch interval; returns
    [(index, concurrent result)] for those whose result differs from the sequential one"""
    import concurrent.futures
    import copy
    ok = getattr(mod, 'thread_ok', lambda c: True)
    idx = [i for i, c in enumerate(cases) if i < len(seq) and ok(c) and isinstance(seq[i], dict) and seq[i].get('out') not in ('HANG', 'HARNESS')][:160]
    if len(idx) < 2:
        return []
    old = sys.getswitchinterval()
    sys.setswitchinterval(1e-6)
    diffs = []
    signal.setitimer(signal.ITIMER_REAL, max(60.0, timeout * 4))
    try:
        def one(i):
            try:
                return i, mod.impl(copy.deepcopy(for_impl(mod, cases[i])))
            except BaseException as ex:
                return i, {'out': 'HARNESS', 'err': '%s: %s' % (type(ex).__name__, ex)}
        with concurrent.futures.ThreadPoolExecutor(max_workers=4) as ex:
            for rnd in range(2):
                for i, r in ex.map(one, idx):
                    if json.dumps(r, sort_keys=True) != json.dumps(seq[i], sort_keys=True):
                        diffs.append([i, r])
    except Hang:
        diffs.append([-1, {'out': 'HANG'}])
    finally:
        signal.setitimer(signal.ITIMER_REAL, 0)
        sys.setswitchinterval(old)
    return diffs[:20]


def main():
    start_line_probe()
    mod = importlib.import_module(sys.argv[1])
    install_call_variants(mod)
    if not os.environ.get('CUV_NO_CALL_STYLES'):
        install_call_styles()
    cases = json.load(open(sys.argv[2]))
    timeout = float(sys.argv[4])
    signal.signal(signal.SIGALRM, on_alarm)
    seq = []
    with open(sys.argv[3], 'w') as out:
        for c in cases:
            signal.setitimer(signal.ITIMER_REAL, timeout)
            try:
                r = mod.impl(for_impl(mod, c))
            except Hang:
                r = {'out': 'HANG'}
            except BaseException as ex:  # harness error, not an outcome of the code under test
                r = {'out': 'HARNESS', 'err': '%s: %s' % (type(ex).__name__, ex)}
            finally:
                signal.setitimer(signal.ITIMER_REAL, 0)
            out.write(json.dumps(r) + '\n')
            out.flush()
            seq.append(r)
        # the same calls made concurrently from several threads must give what they gave one after the other (the
        # library's functions share no state; a property module opts in with THREADS and names the cases with thread_ok)
        if getattr(mod, 'THREADS', False):
            diffs = thread_pass(mod, cases, seq, timeout)
            out.write(json.dumps({'_thread_diffs': diffs}) + '\n')


main()
