(* driver.ml — I/O glue for the extracted model: one case per line on stdin, one result per line on stdout. *)
open Model
let rec pos_of_int i = if i = 1 then XH else if i land 1 = 0 then XO (pos_of_int (i lsr 1)) else XI (pos_of_int (i lsr 1))
let n_of_int i = if i = 0 then N0 else Npos (pos_of_int i)
let rec int_of_pos = function XH -> 1 | XO p -> 2 * int_of_pos p | XI p -> 2 * int_of_pos p + 1
let int_of_n = function N0 -> 0 | Npos p -> int_of_pos p
let byte_tbl = Array.init 256 (fun i -> match of_N (n_of_int i) with Some b -> b | None -> assert false)
let coq_of_string s = List.init (String.length s) (fun i -> byte_tbl.(Char.code s.[i]))
let string_of_coq l =
  let b = Buffer.create 256 in
  List.iter (fun x -> Buffer.add_char b (Char.chr (int_of_n (to_N x)))) l; Buffer.contents b
let () =
  try while true do
    let line = input_line stdin in
    print_endline (string_of_coq (run_line (coq_of_string line)))
  done with End_of_file -> ()
