#!/bin/sh
# Offline build of the whole framework from files on disk: translator -> Coq (full .vo build) -> extraction -> OCaml driver.
set -e
HERE=$(cd "$(dirname "$0")" && pwd)
cd "$HERE"
export PYTHONDONTWRITEBYTECODE=1 PYTHONHASHSEED=0 PYTHONUTF8=1
# the checks serialise their builds on .build.lock (harness/engine.py); take the same lock, so that a check running at the
# same time never sees a half-built tree
if [ -z "$CUV_SETUP_LOCKED" ] && command -v flock >/dev/null 2>&1; then
  CUV_SETUP_LOCKED=1 exec flock "$HERE/.build.lock" "$0" "$@"
fi
/venv/bin/python -B harness/gen_coq.py "${VERIF_REPO:-/repo}" coq/theories/gen
cd coq
coq_makefile -f _CoqProject -o Makefile >/dev/null
timeout 3000 make -j16 >/dev/null 2>"$HERE/.setup.err" || { tail -40 "$HERE/.setup.err"; echo "setup: coq build failed (checks will report it)"; }
cd ../ocaml
mkdir -p ../bin
if [ -f model.ml ]; then
  timeout 600 ocamlfind ocamlopt -w -a model.mli model.ml driver.ml -o ../bin/cu_model
fi
cd "$HERE"
# no forbidden constructs anywhere in the development
if grep -rnE '\b(Admitted|admit|Axiom|Parameter|Conjecture|Admit Obligations|bypass_check)\b|Unset (Guard|Positivity|Universe) Checking' coq/theories --include='*.v' | grep -v '^coq/theories/gen/' | grep -vE '^\S+:[0-9]+:\s*\(\*'; then
  echo "setup: forbidden construct found"; exit 1
fi
echo "setup ok"
